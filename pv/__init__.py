# The analyser is ~13k lines of python; with PYTHONDONTWRITEBYTECODE set (as in the harness) every process - and every worker
# started with the `spawn` method - would compile it from source again.  Keep the byte code in a scratch cache outside /verif
# (an optimisation only: nothing depends on it being there).
import os as _os
import sys as _sys
import tempfile as _tempfile
try:
    _sys.dont_write_bytecode = False
    if not _sys.pycache_prefix:
        _sys.pycache_prefix = _os.path.join(_tempfile.gettempdir(), f"pv_pycache_{_os.getuid()}")
except Exception:
    pass
