"""Exact algebra for the stencil domain.

Poly : multivariate polynomial, Fraction coefficients, over interned atoms.
Rat  : rational expression  num / prod(factor_i ** e_i)  with the denominator kept as a
       multiset of (unexpanded) polynomial factors.

Atoms are interned keys (tuples).  Some atoms are *indicators* ([x>0], [x<0], [x==0]); they are
idempotent and mutually exclusive inside one group (same argument).  Identities that involve
indicators are decided by a finite case split over the sign of each argument (see `case_zero`).

Nothing here calls a solver; every decision is a comparison of expanded normal forms.
"""
from __future__ import annotations
from fractions import Fraction
from itertools import product as _product

# ----------------------------------------------------------------------------------------------
# atom registry
# ----------------------------------------------------------------------------------------------
_ATOM_ID: dict = {}
_ATOM_KEY: list = []
_IND_GROUP: dict = {}     # atom id -> (group key, member) for indicator atoms


def atom_id(key) -> int:
    i = _ATOM_ID.get(key)
    if i is None:
        i = len(_ATOM_KEY)
        _ATOM_ID[key] = i
        _ATOM_KEY.append(key)
        if isinstance(key, tuple) and key and key[0] == 'ind':
            # ('ind', rel, argkey) ; rel in '>0','<0','==0'
            _IND_GROUP[i] = (key[2], key[1])
    return i


def atom_key(i: int):
    return _ATOM_KEY[i]


def is_indicator(i: int) -> bool:
    return i in _IND_GROUP


def _fr(x) -> Fraction:
    if isinstance(x, Fraction):
        return x
    if isinstance(x, bool):
        return Fraction(int(x))
    if isinstance(x, int):
        return Fraction(x)
    if isinstance(x, float):
        # exact value of the *literal text* is handled by the interpreter; a float reaching here
        # is converted through its shortest repr (0.5 -> 1/2, 1e-16 -> 1/10**16)
        return Fraction(repr(x))
    raise TypeError(f"cannot make a Fraction from {type(x)}")


# monomial = tuple of (atom_id, exp) sorted by atom id; () is 1
def _mono_mul(a, b):
    """product of two monomials; returns None if the product vanishes (exclusive indicators)"""
    if not a:
        return b
    if not b:
        return a
    out = []
    i = j = 0
    la, lb = len(a), len(b)
    has_ind = False
    while i < la and j < lb:
        x, y = a[i], b[j]
        if x[0] == y[0]:
            if x[0] in _IND_GROUP:
                out.append((x[0], 1))
                has_ind = True
            else:
                out.append((x[0], x[1] + y[1]))
            i += 1
            j += 1
        elif x[0] < y[0]:
            out.append(x)
            has_ind = has_ind or (x[0] in _IND_GROUP)
            i += 1
        else:
            out.append(y)
            has_ind = has_ind or (y[0] in _IND_GROUP)
            j += 1
    while i < la:
        out.append(a[i])
        has_ind = has_ind or (a[i][0] in _IND_GROUP)
        i += 1
    while j < lb:
        out.append(b[j])
        has_ind = has_ind or (b[j][0] in _IND_GROUP)
        j += 1
    if has_ind:
        seen = {}
        for (aid, _e) in out:
            g = _IND_GROUP.get(aid)
            if g is not None:
                if g[0] in seen and seen[g[0]] != g[1]:
                    return None       # [x>0]*[x<0] = 0 etc.
                seen[g[0]] = g[1]
    return tuple(out)


class Poly:
    __slots__ = ('t', '_h')

    def __init__(self, terms=None):
        self.t = terms if terms is not None else {}
        self._h = None

    # -- constructors
    @staticmethod
    def const(c):
        c = _fr(c)
        return Poly({(): c}) if c != 0 else Poly({})

    @staticmethod
    def atom(key):
        return Poly({((atom_id(key), 1),): Fraction(1)})

    # -- predicates
    def is_zero(self):
        return not self.t

    def is_const(self):
        return not self.t or (len(self.t) == 1 and () in self.t)

    def const_value(self):
        if not self.t:
            return Fraction(0)
        if len(self.t) == 1 and () in self.t:
            return self.t[()]
        raise ValueError("not a constant")

    def as_int(self):
        v = self.const_value()
        if v.denominator != 1:
            raise ValueError("not an integer")
        return int(v)

    def key(self):
        return tuple(sorted(self.t.items()))

    def __hash__(self):
        if self._h is None:
            self._h = hash(self.key())
        return self._h

    def __eq__(self, o):
        if not isinstance(o, Poly):
            o = Poly.const(o)
        return self.t == o.t

    def atoms(self):
        s = set()
        for m in self.t:
            for (a, _e) in m:
                s.add(a)
        return s

    def nterms(self):
        return len(self.t)

    # -- arithmetic
    def __neg__(self):
        return Poly({m: -c for m, c in self.t.items()})

    def __add__(self, o):
        if not isinstance(o, Poly):
            o = Poly.const(o)
        if not o.t:
            return self
        if not self.t:
            return o
        r = dict(self.t)
        for m, c in o.t.items():
            v = r.get(m)
            if v is None:
                r[m] = c
            else:
                v = v + c
                if v == 0:
                    del r[m]
                else:
                    r[m] = v
        return Poly(r)

    __radd__ = __add__

    def __sub__(self, o):
        if not isinstance(o, Poly):
            o = Poly.const(o)
        return self + (-o)

    def __rsub__(self, o):
        return (-self) + o

    def __mul__(self, o):
        if not isinstance(o, Poly):
            o = _fr(o)
            if o == 0:
                return Poly({})
            if o == 1:
                return self
            return Poly({m: c * o for m, c in self.t.items()})
        if not self.t or not o.t:
            return Poly({})
        a, b = self.t, o.t
        if len(a) < len(b):
            a, b = b, a
        r = {}
        for m2, c2 in b.items():
            for m1, c1 in a.items():
                m = _mono_mul(m1, m2)
                if m is None:
                    continue
                c = c1 * c2
                v = r.get(m)
                if v is None:
                    r[m] = c
                else:
                    v = v + c
                    if v == 0:
                        del r[m]
                    else:
                        r[m] = v
        return Poly(r)

    __rmul__ = __mul__

    def __pow__(self, n):
        if not isinstance(n, int) or n < 0:
            raise ValueError("Poly ** needs a non-negative int")
        r = Poly.const(1)
        b = self
        while n:
            if n & 1:
                r = r * b
            n >>= 1
            if n:
                b = b * b
        return r

    def scale(self, c):
        return self * _fr(c)

    # -- structure
    def degree_in(self, aid):
        d = 0
        for m in self.t:
            for (a, e) in m:
                if a == aid and e > d:
                    d = e
        return d

    def coeff_of(self, aid, k=1):
        """coefficient polynomial of atom**k (atom removed)"""
        r = {}
        for m, c in self.t.items():
            e = 0
            rest = []
            for (a, ee) in m:
                if a == aid:
                    e = ee
                else:
                    rest.append((a, ee))
            if e == k:
                rest = tuple(rest)
                r[rest] = r.get(rest, 0) + c
        return Poly({m: c for m, c in r.items() if c != 0})

    def without(self, aid):
        """terms that do not contain atom aid"""
        return self.coeff_of(aid, 0)

    def subs(self, mapping):
        """mapping: atom id -> Poly ; returns Poly"""
        if not mapping:
            return self
        if not (self.atoms() & set(mapping)):
            return self
        res = Poly({})
        cache = {}
        for m, c in self.t.items():
            term = Poly({(): c})
            rest = []
            for (a, e) in m:
                if a in mapping:
                    k = (a, e)
                    p = cache.get(k)
                    if p is None:
                        p = mapping[a] ** e
                        cache[k] = p
                    term = term * p
                else:
                    rest.append((a, e))
            if rest:
                term = term * Poly({tuple(rest): Fraction(1)})
            res = res + term
        return res

    def content_monomial(self):
        """largest monomial dividing every term (ignoring indicator atoms), and numeric content"""
        if not self.t:
            return (), Fraction(0)
        it = iter(self.t)
        first = next(it)
        common = {a: e for (a, e) in first if a not in _IND_GROUP}
        for m in it:
            d = dict(m)
            for a in list(common):
                e = d.get(a, 0)
                if e == 0:
                    del common[a]
                elif e < common[a]:
                    common[a] = e
            if not common:
                break
        mono = tuple(sorted(common.items()))
        # numeric content: make coefficients integral & coprime, sign so that leading coeff > 0
        from math import gcd
        dens = 1
        for c in self.t.values():
            dens = dens * c.denominator // gcd(dens, c.denominator)
        g = 0
        for c in self.t.values():
            g = gcd(g, int(c * dens))
        lead = self.t[max(self.t)]
        cont = Fraction(g, dens)
        if lead < 0:
            cont = -cont
        return mono, cont

    def div_monomial(self, mono, c=1):
        if not mono and c == 1:
            return self
        d = dict(mono)
        c = _fr(c)
        r = {}
        for m, cc in self.t.items():
            nm = []
            left = dict(d)
            for (a, e) in m:
                k = left.pop(a, 0)
                if e - k < 0:
                    raise ValueError("monomial does not divide")
                if e - k > 0:
                    nm.append((a, e - k))
            if left:
                raise ValueError("monomial does not divide")
            r[tuple(nm)] = cc / c
        return Poly(r)

    def try_div(self, q):
        """exact division self / q ; returns Poly or None.  Indicator atoms are not divided."""
        if q.is_const():
            c = q.const_value()
            if c == 0:
                return None
            return self * (1 / c)
        if not self.t:
            return self
        for a in q.atoms():
            if a in _IND_GROUP:
                return None
        # multivariate division w.r.t. lexicographic order on the monomial tuples
        lm_q = max(q.t, key=_lexkey)
        lc_q = q.t[lm_q]
        rem = dict(self.t)
        quo = {}
        guard = 0
        while rem:
            guard += 1
            if guard > 20000:
                return None
            lm = max(rem, key=_lexkey)
            d = _mono_div(lm, lm_q)
            if d is None:
                return None
            c = rem[lm] / lc_q
            quo[d] = quo.get(d, 0) + c
            for m2, c2 in q.t.items():
                m = _mono_mul(d, m2)
                v = rem.get(m, 0) - c * c2
                if v == 0:
                    rem.pop(m, None)
                else:
                    rem[m] = v
        return Poly({m: c for m, c in quo.items() if c != 0})

    def __repr__(self):
        return fmt_poly(self)


def _mono_div(a, b):
    """a / b as monomial or None"""
    da = dict(a)
    for (x, e) in b:
        v = da.get(x, 0) - e
        if v < 0:
            return None
        if v == 0:
            da.pop(x, None)
        else:
            da[x] = v
    return tuple(sorted(da.items()))


# a total order that is a proper monomial order is needed for division to terminate:
# use (total degree, then lexicographic on atom ids descending)
_LEXKEY_CACHE = {}


def _lexkey(m):
    k = _LEXKEY_CACHE.get(m)
    if k is None:
        deg = 0
        for (_a, e) in m:
            deg += e
        k = (deg, tuple((-a, e) for (a, e) in m))
        if len(_LEXKEY_CACHE) > 400000:
            _LEXKEY_CACHE.clear()
        _LEXKEY_CACHE[m] = k
    return k


# ----------------------------------------------------------------------------------------------
def fmt_atom(i):
    k = _ATOM_KEY[i]
    return fmt_key(k)


def fmt_key(k):
    if isinstance(k, tuple):
        if not k:
            return '()'
        h = k[0]
        if h == 'ind':
            return f"[{fmt_key(k[2])}{k[1]}]"
        if h == 'f':
            return f"{k[1]}f[{fmt_key(k[2])}]"
        if len(k) > 2 and isinstance(k[1], str) and k[1] in ('x', 'y', 'z') and isinstance(h, str):
            return f"{h}.{k[1]}[{','.join(fmt_key(x) for x in k[2:])}]"
        if h == 'fn':
            return f"{k[1]}({fmt_key(k[2])})"
        if h == 'rat':
            return f"({k[1]})"
        if h in ('N', 't'):
            return f"{h}{k[1]}"
        args = ','.join(fmt_key(x) for x in k[1:])
        return f"{h}[{args}]" if args else str(h)
    if isinstance(k, Poly):
        return fmt_poly(k)
    if isinstance(k, Rat):
        return fmt_rat(k)
    return str(k)


def fmt_poly(p, maxterms=12):
    if not p.t:
        return '0'
    parts = []
    items = sorted(p.t.items(), key=lambda mc: _lexkey(mc[0]), reverse=True)
    for n, (m, c) in enumerate(items):
        if n >= maxterms:
            parts.append(f"...(+{len(items) - maxterms} terms)")
            break
        ms = '*'.join(fmt_atom(a) + (f"^{e}" if e != 1 else '') for (a, e) in m)
        if not ms:
            parts.append(str(c))
        elif c == 1:
            parts.append(ms)
        elif c == -1:
            parts.append('-' + ms)
        else:
            parts.append(f"{c}*{ms}")
    return ' + '.join(parts).replace('+ -', '- ')


# ----------------------------------------------------------------------------------------------
# Rat
# ----------------------------------------------------------------------------------------------
def _norm_factor(p: Poly):
    """split p into (coef, [(atom-or-poly factor, exp)]) with primitive normalised factors"""
    mono, cont = p.content_monomial()
    facs = []
    for (a, e) in mono:
        facs.append((Poly({((a, 1),): Fraction(1)}), e))
    rest = p.div_monomial(mono, cont)
    if not rest.is_const():
        facs.append((rest, 1))
        coef = cont
    else:
        coef = cont * rest.const_value()
    return coef, facs


class Rat:
    """coef * prod(f ** e)  with f primitive, normalised, non-constant polynomials and e in Z\\{0}.
    Products and quotients never expand; sums expand the numerators over the factor-wise lcm."""
    __slots__ = ('coef', 'fac', '_num', '_k')

    def __init__(self, num=None, den=(), coef=None, fac=None):
        self._num = None
        self._k = None
        if coef is not None:
            self.coef = coef
            self.fac = fac if coef != 0 else ()
            return
        # legacy constructor: Rat(Poly[, den factors])
        if num is None or num.is_zero():
            self.coef = Fraction(0)
            self.fac = ()
            return
        c, facs = _norm_factor(num)
        d = {}
        for f, e in facs:
            d[f] = d.get(f, 0) + e
        for f, e in den:
            d[f] = d.get(f, 0) - e
        self.coef = c
        self.fac = _sort_fac(d)

    # -- constructors
    @staticmethod
    def const(c):
        return Rat(coef=_fr(c), fac=())

    @staticmethod
    def atom(key):
        return Rat(coef=Fraction(1), fac=((Poly.atom(key), 1),))

    @staticmethod
    def of(x):
        if isinstance(x, Rat):
            return x
        if isinstance(x, Poly):
            return Rat(x)
        return Rat.const(x)

    # -- views
    @property
    def num(self) -> Poly:
        """expanded numerator (including coef)"""
        if self._num is None:
            p = Poly.const(self.coef)
            for f, e in self.fac:
                if e > 0:
                    p = p * (f ** e)
            self._num = p
        return self._num

    @property
    def den(self):
        return tuple((f, -e) for f, e in self.fac if e < 0)

    def is_zero(self):
        if self.coef == 0:
            return True
        if any(is_indicator(a) for f, e in self.fac if e > 0 for a in f.atoms()):
            return self.num.is_zero()
        return False

    def is_poly(self):
        return not any(e < 0 for _f, e in self.fac)

    def is_const(self):
        return not self.fac

    def const_value(self):
        if self.fac:
            n = self.num
            if not self.den and n.is_const():
                return n.const_value()
            raise ValueError("not a constant")
        return self.coef

    def as_poly(self):
        if any(e < 0 for _f, e in self.fac):
            r = self._cancel()
            if any(e < 0 for _f, e in r.fac):
                raise ValueError("not a polynomial: " + fmt_rat(self))
            return r.num
        return self.num

    def as_int(self):
        return self.as_poly().as_int()

    def den_poly(self):
        d = Poly.const(1)
        for f, e in self.fac:
            if e < 0:
                d = d * (f ** (-e))
        return d

    def atoms(self):
        s = set()
        for f, _e in self.fac:
            s |= f.atoms()
        return s

    def key(self):
        if self._k is None:
            d = self.den_poly()
            n = self.num
            if not d.is_const():
                lead = d.t[max(d.t, key=_lexkey)]
                n = n * (1 / lead)
                d = d * (1 / lead)
            self._k = ('rat', n.key(), d.key())
        return self._k

    def __hash__(self):
        return hash(self.key())

    def __eq__(self, o):
        if not isinstance(o, (Rat, Poly, int, Fraction)):
            return False
        return equal(self, Rat.of(o))

    # -- arithmetic
    def __neg__(self):
        return Rat(coef=-self.coef, fac=self.fac)

    def __add__(self, o):
        o = Rat.of(o)
        if o.coef == 0:
            return self
        if self.coef == 0:
            return o
        if self.fac == o.fac:
            c = self.coef + o.coef
            return Rat(coef=c, fac=self.fac if c != 0 else ())
        da = {f: -e for f, e in self.fac if e < 0}
        db = {f: -e for f, e in o.fac if e < 0}
        lcm = dict(da)
        for f, e in db.items():
            if lcm.get(f, 0) < e:
                lcm[f] = e
        na = self.num
        nb = o.num
        for f, e in lcm.items():
            ea = e - da.get(f, 0)
            eb = e - db.get(f, 0)
            if ea:
                na = na * (f ** ea)
            if eb:
                nb = nb * (f ** eb)
        num = na + nb
        if num.is_zero():
            return Rat(coef=Fraction(0), fac=())
        return Rat(num, tuple(lcm.items()))._cancel()

    __radd__ = __add__

    def __sub__(self, o):
        return self + (-Rat.of(o))

    def __rsub__(self, o):
        return Rat.of(o) + (-self)

    def __mul__(self, o):
        o = Rat.of(o)
        c = self.coef * o.coef
        if c == 0:
            return Rat(coef=Fraction(0), fac=())
        if not o.fac:
            return Rat(coef=c, fac=self.fac)
        if not self.fac:
            return Rat(coef=c, fac=o.fac)
        d = dict(self.fac)
        for f, e in o.fac:
            v = d.get(f, 0) + e
            if v:
                d[f] = v
            else:
                del d[f]
        return Rat(coef=c, fac=_sort_fac(d))

    __rmul__ = __mul__

    def inv(self):
        if self.coef == 0 or self.is_zero():
            raise ZeroDivisionError("symbolic division by zero")
        return Rat(coef=1 / self.coef, fac=tuple((f, -e) for f, e in self.fac))

    def __truediv__(self, o):
        return self * Rat.of(o).inv()

    def __rtruediv__(self, o):
        return Rat.of(o) * self.inv()

    def __pow__(self, n):
        if isinstance(n, Rat):
            n = n.const_value()
        if isinstance(n, Fraction):
            if n.denominator != 1:
                raise ValueError("non-integer power")
            n = int(n)
        if n == 0:
            return Rat.const(1)
        if n < 0 and self.coef == 0:
            raise ZeroDivisionError("0 ** negative")
        if self.coef == 0:
            return self
        return Rat(coef=self.coef ** n, fac=tuple((f, e * n) for f, e in self.fac))

    # -- simplification
    def _cancel(self):
        """divide the (single, expanded) numerator by denominator factors where exact"""
        neg = [(f, -e) for f, e in self.fac if e < 0]
        if not neg or self.coef == 0:
            return self
        num = self.num
        if num.nterms() > 600:
            return self
        d = []
        changed = False
        for (f, e) in neg:
            k = e
            while k > 0:
                q = num.try_div(f)
                if q is None:
                    break
                num = q
                k -= 1
                changed = True
            if k:
                d.append((f, k))
        if not changed:
            return self
        return Rat(num, tuple(d))

    def subs(self, mapping):
        """mapping atom id -> Rat|Poly"""
        if not mapping or not (self.atoms() & set(mapping)):
            return self
        res = Rat.const(self.coef)
        for f, e in self.fac:
            if f.atoms() & set(mapping):
                res = res * (_subs_rat(f, mapping) ** e)
            else:
                res = res * Rat(coef=Fraction(1), fac=((f, e),))
        return res

    def coeff_of(self, aid):
        """self = c*atom + r with atom absent from den: returns (c, r) as Rats; raises if nonlinear"""
        for f, e in self.fac:
            if e < 0 and aid in f.atoms():
                raise ValueError("atom occurs in denominator")
        n = self.num
        if n.degree_in(aid) > 1:
            raise ValueError("nonlinear in atom")
        den = self.den
        return Rat(n.coeff_of(aid, 1), den)._cancel(), Rat(n.without(aid), den)._cancel()

    def __repr__(self):
        return fmt_rat(self)


def _sort_fac(d: dict):
    return tuple(sorted(((f, e) for f, e in d.items() if e), key=lambda fe: (fe[0].nterms(), hash(fe[0]))))


def _prod(it):
    r = Rat.const(1)
    for x in it:
        r = r * x
    return r


def _subs_rat(p: Poly, mapping):
    allpoly = all(isinstance(v, Poly) or (isinstance(v, Rat) and v.is_poly()) for a, v in mapping.items() if a in p.atoms())
    if allpoly:
        mp = {a: (v if isinstance(v, Poly) else v.num) for a, v in mapping.items() if a in p.atoms()}
        return Rat(p.subs(mp))
    res = Rat.const(0)
    for m, c in p.t.items():
        term = Rat.const(c)
        rest = []
        for (a, e) in m:
            if a in mapping:
                term = term * (Rat.of(mapping[a]) ** e)
            else:
                rest.append((a, e))
        if rest:
            term = term * Rat(Poly({tuple(rest): Fraction(1)}))
        res = res + term
    return res


def fmt_rat(r, maxterms=12):
    if not r.fac:
        return str(r.coef)
    nums = [(f, e) for f, e in r.fac if e > 0]
    dens = [(f, -e) for f, e in r.fac if e < 0]

    def pf(f, e):
        s = fmt_poly(f, maxterms)
        if f.nterms() > 1 or e != 1:
            s = f"({s})"
        return s + (f"^{e}" if e != 1 else '')
    ns = '*'.join(pf(f, e) for f, e in nums)
    if r.coef != 1 or not ns:
        cs = str(r.coef) if r.coef.denominator == 1 else f"({r.coef})"
        if r.coef == -1 and ns:
            ns = '-' + ns
        else:
            ns = cs + ('*' + ns if ns else '')
    if not dens:
        return ns
    ds = '*'.join(pf(f, e) for f, e in dens)
    return f"{ns}/({ds})" if len(dens) > 1 else f"{ns}/{ds}"


# ----------------------------------------------------------------------------------------------
# decisions
# ----------------------------------------------------------------------------------------------
def equal(a: Rat, b: Rat) -> bool:
    return is_zero(a - b)


def is_zero(r: Rat) -> bool:
    """exact zero test, with the indicator case split when indicator atoms are present"""
    if r.coef == 0:
        return True
    if not any(a in _IND_GROUP for a in r.atoms()):
        return False
    if r.num.is_zero():
        return True
    groups = indicator_groups(r.num)
    if not groups:
        return False
    return case_zero(r.num, groups)


def indicator_groups(p: Poly):
    g = {}
    for a in p.atoms():
        gi = _IND_GROUP.get(a)
        if gi is not None:
            g.setdefault(gi[0], set()).add(a)
    return g


def ind(rel, arg: Rat) -> Rat:
    """indicator atom [arg rel 0]; rel in '>0','<0','==0' ; constant args are folded"""
    if arg.is_const():
        v = arg.const_value()
        ok = (v > 0) if rel == '>0' else (v < 0) if rel == '<0' else (v == 0)
        return Rat.const(1 if ok else 0)
    # canonical argument: positive numeric coefficient 1  ([-x>0] == [x<0], [2x>0] == [x>0])
    if arg.coef < 0:
        rel = {'>0': '<0', '<0': '>0', '==0': '==0'}[rel]
        arg = -arg
    if arg.coef != 1:
        arg = Rat(coef=Fraction(1), fac=arg.fac)
    return Rat.atom(('ind', rel, arg))


_RAT_BY_KEY: dict = {}


def remember(r: Rat):
    """keep a Rat reachable from its key so that case splits can substitute arg == 0"""
    _RAT_BY_KEY.setdefault(r.key(), r)
    return r


def case_zero(p: Poly, groups=None, _budget=None) -> bool:
    """p == 0 for every sign of every indicator argument.
    Recursive three-way split on one argument x at a time (x>0, x<0, x==0; in the last case, if x is a bare atom,
    that atom is set to 0 as well); after each substitution only the groups still present are split further."""
    if p.is_zero():
        return True
    if _budget is None:
        _budget = [60000]
    groups = indicator_groups(p)
    if not groups:
        return False
    _budget[0] -= 1
    if _budget[0] < 0:
        raise OverflowError("indicator case split exceeds its budget")
    # split on the group with most occurrences first
    gk = max(groups, key=lambda g: len(groups[g]))
    for rel in ('>0', '<0', '==0'):
        mp = {}
        for r in ('>0', '<0', '==0'):
            aid = _ATOM_ID.get(('ind', r, gk))
            if aid is not None:
                mp[aid] = Poly.const(1 if r == rel else 0)
        if rel == '==0':
            arg = gk if isinstance(gk, Rat) else _RAT_BY_KEY.get(gk)
            if arg is not None and arg.is_poly() and len(arg.num.t) == 1:
                (m, _c), = arg.num.t.items()
                if len(m) == 1 and m[0][1] == 1:
                    mp[m[0][0]] = Poly({})
        q = p.subs(mp)
        if not case_zero(q, None, _budget):
            return False
    return True


def sign_by_increments(p: Poly, chains, pos_atoms=(), nonneg_atoms=()):
    """Sufficient sign test.
    chains: lists of atom ids [a0,a1,...,ak] known to be strictly increasing (a0<a1<...).
    Substitute a_j = a0 + d1 + ... + dj with fresh strictly positive increments d.  After expansion,
    if every coefficient is >= 0 and every atom with an odd exponent is known >= 0, then p >= 0;
    if moreover some term consists only of strictly positive atoms, p > 0.
    Returns 'zero' | 'pos' | 'nonneg' | 'neg' | 'nonpos' | None (undetermined)."""
    mp = {}
    pos = set(pos_atoms)
    for ch in chains:
        acc = Poly({((ch[0], 1),): Fraction(1)})
        for j in range(1, len(ch)):
            d = Poly.atom(('incr', ch[0], ch[j]))
            pos |= d.atoms()
            acc = acc + d
            mp[ch[j]] = acc
    q = p.subs(mp)
    if q.is_zero():
        return 'zero'
    ok = pos | set(nonneg_atoms)

    def one(qq):
        strictly = False
        for m, c in qq.t.items():
            if c < 0:
                return None
            for (a, e) in m:
                if a not in ok and (e % 2):
                    return None
            if all(a in pos for (a, _e) in m):
                strictly = True
        return 'pos' if strictly else 'nonneg'
    r = one(q)
    if r:
        return r
    r = one(-q)
    if r:
        return 'neg' if r == 'pos' else 'nonpos'
    return None


# ----------------------------------------------------------------------------------------------
# re-indexing: substitute index symbols *inside atom keys* (atoms are keyed by Rat indices)
# ----------------------------------------------------------------------------------------------
def _rekey(k, submap, hooks):
    if isinstance(k, Rat):
        return reindex(k, submap, hooks)
    if isinstance(k, tuple):
        return tuple(_rekey(x, submap, hooks) for x in k)
    return k


def reindex(r: Rat, submap, hooks=None):
    """submap: {atom id of an index symbol: Rat}.  Every atom whose key mentions such a symbol is
    rebuilt with the substituted index; the symbols themselves are substituted too.
    hooks: optional {head: fn(newkey) -> Rat} to rebuild special atoms (indicators, functions)."""
    hooks = hooks or {}
    mp = {}
    for a in r.atoms():
        if a in submap:
            mp[a] = Rat.of(submap[a])
            continue
        k = _ATOM_KEY[a]
        if not isinstance(k, tuple):
            continue
        nk = _rekey(k, submap, hooks)
        if nk != k:
            h = nk[0]
            if h == 'ind':
                mp[a] = ind(nk[1], nk[2])
            elif h in hooks:
                mp[a] = hooks[h](nk)
            else:
                mp[a] = Rat.atom(nk)
    return r.subs(mp)


def map_atoms(r: Rat, fn):
    """fn(atom key) -> Rat or None"""
    mp = {}
    for a in r.atoms():
        v = fn(_ATOM_KEY[a])
        if v is not None:
            mp[a] = Rat.of(v)
    return r.subs(mp)


def atoms_with_head(r: Rat, head):
    out = []
    for a in r.atoms():
        k = _ATOM_KEY[a]
        if isinstance(k, tuple) and k and k[0] == head:
            out.append((a, k))
    return out
