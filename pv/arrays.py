"""Abstract array domain of the stencil interpreter.

An array is (symbolic shape, element function of a symbolic index).  Shapes and indices are
polynomials over the size symbols N_x,N_y,N_z and generic position symbols t_x,t_y,t_z; all index
comparisons go through an oracle (`Ctx`) that decides them for *every* N >= NMIN and every generic
position with margin M, or fails closed (AnalysisError).  With concrete sizes the same code runs
with integer shapes.

Values are never computed numerically: an element is a `Rat` over named atoms.
"""
from __future__ import annotations
from fractions import Fraction
from .alg import Poly, Rat, atom_id, atom_key, ind, remember, fmt_rat
from .srcmodel import AnalysisError

INF = float('inf')


class AbstractRaise(Exception):
    """the analysed program raises `exc` (a Python exception class name) on this path"""

    def __init__(self, exc, msg='', lineno=None):
        super().__init__(f"{exc}: {msg}")
        self.exc = exc
        self.msg = msg
        self.lineno = lineno


# ----------------------------------------------------------------------------------------------
class Ctx:
    """index oracle + bookkeeping"""
    M = int(__import__('os').environ.get('PV_MARGIN', '4'))
    NMIN = int(__import__('os').environ.get('PV_NMIN', '8'))

    def __init__(self):
        self.bounds = {}          # atom id -> (lo Poly, hi Poly)   inclusive, may mention N atoms
        self.nsyms = set()        # atom ids of size symbols (N >= NMIN)
        self.assumptions = []
        self.events = []          # analysis events (input mutated, skipped warn-branches, ...)
        self.nsym_min = {}
        self.nsym_max = {}        # atom id -> upper bound (only set by a decided size comparison, see compare_scalar)

    def size_symbol(self, name, nmin=None):
        r = Rat.atom(('N', name))
        a = atom_id(('N', name))
        self.nsyms.add(a)
        self.nsym_min[a] = self.NMIN if nmin is None else nmin
        return r

    def pos_symbol(self, name, lo: Poly, hi: Poly):
        r = Rat.atom(('t', name))
        self.bounds[atom_id(('t', name))] = (lo, hi)
        return r

    def bound_symbol(self, key, lo: Poly, hi: Poly):
        r = Rat.atom(key)
        self.bounds[atom_id(key)] = (lo, hi)
        return r

    # -- interval of a polynomial
    def interval(self, p: Poly):
        if p.is_const():
            v = p.const_value()
            return v, v
        lo_p, hi_p = p, p
        # eliminate bounded symbols (their bounds may mention N)
        for _round in range(4):
            syms = [a for a in (lo_p.atoms() | hi_p.atoms()) if a in self.bounds]
            if not syms:
                break
            for a in syms:
                slo, shi = self.bounds[a]
                for which in (0, 1):
                    q = lo_p if which == 0 else hi_p
                    if a not in q.atoms():
                        continue
                    if q.degree_in(a) != 1:
                        return -INF, INF
                    c = q.coeff_of(a, 1)
                    if not c.is_const():
                        return -INF, INF
                    cv = c.const_value()
                    rest = q.without(a)
                    if which == 0:
                        q = rest + (slo if cv > 0 else shi) * cv
                    else:
                        q = rest + (shi if cv > 0 else slo) * cv
                    if which == 0:
                        lo_p = q
                    else:
                        hi_p = q
        return self._n_lower(lo_p), self._n_upper(hi_p)

    def _n_shift(self, p: Poly):
        at = p.atoms()
        if not at <= self.nsyms:
            return None
        mp = {a: Poly({((a, 1),): Fraction(1)}) + self.nsym_min[a] for a in at}
        return p.subs(mp)

    def _n_affine(self, p: Poly, lower: bool):
        """bound of an affine polynomial in the size symbols from their [min, max] ranges; None if p is not affine"""
        tot = Fraction(0)
        for m, c in p.t.items():
            if m == ():
                tot += c
                continue
            if len(m) != 1 or m[0][1] != 1 or m[0][0] not in self.nsyms:
                return None
            a = m[0][0]
            use_min = (c > 0) == lower
            if use_min:
                tot += c * self.nsym_min[a]
            else:
                mx = self.nsym_max.get(a)
                if mx is None:
                    return -INF if lower else INF
                tot += c * mx
        return tot

    def _n_lower(self, p: Poly):
        if p.is_const():
            return p.const_value()
        if self.nsym_max:
            v = self._n_affine(p, True)
            if v is not None:
                return v
        q = self._n_shift(p)
        if q is None:
            return -INF
        if all(c >= 0 for c in q.t.values()):
            return q.t.get((), Fraction(0))
        # affine with a negative coefficient -> unbounded below
        return -INF

    def _n_upper(self, p: Poly):
        if p.is_const():
            return p.const_value()
        if self.nsym_max:
            v = self._n_affine(p, False)
            if v is not None:
                return v
        q = self._n_shift(p)
        if q is None:
            return INF
        if all(c <= 0 for c in q.t.values()):
            return q.t.get((), Fraction(0))
        return INF

    def sign(self, r):
        """'+','-','0' or None for a Rat/Poly that must be a polynomial in index symbols"""
        p = r.as_poly() if isinstance(r, Rat) else r
        if p.is_zero():
            return '0'
        lo, hi = self.interval(p)
        if lo > 0:
            return '+'
        if hi < 0:
            return '-'
        if lo == 0 and hi == 0:
            return '0'
        return None

    def _need(self, r, what):
        s = self.sign(r)
        if s is None:
            raise AnalysisError(f"undecidable index comparison: {what}: {r}")
        return s

    def eq(self, a, b):
        d = Rat.of(a) - Rat.of(b)
        if d.is_zero():
            return True
        p = d.as_poly()
        lo, hi = self.interval(p)
        if lo > 0 or hi < 0:
            return False
        raise AnalysisError(f"undecidable index equality: {a} == {b}")

    def lt(self, a, b):
        return self._need(Rat.of(b) - Rat.of(a), f"{a} < {b}") == '+'

    def le(self, a, b):
        d = Rat.of(b) - Rat.of(a)
        p = d.as_poly()
        if p.is_zero():
            return True
        lo, hi = self.interval(p)
        if lo >= 0:
            return True
        if hi < 0:
            return False
        raise AnalysisError(f"undecidable index comparison: {a} <= {b}")

    def size_predicate(self, d: Rat):
        """(atom, coefficient, constant) if d == c*N + k for one size symbol N and constants c != 0, k; else None"""
        if d.den:
            return None
        p = d.num
        ats = p.atoms()
        if len(ats) != 1:
            return None
        a = next(iter(ats))
        if a not in self.nsyms or p.degree_in(a) != 1:
            return None
        c = p.coeff_of(a, 1)
        k = p.without(a)
        if not c.is_const() or not k.is_const() or c.const_value() == 0:
            return None
        return a, c.const_value(), k.const_value()

    def assume_size(self, d: Rat, op: str, truth: bool):
        """refine the range of the size symbol of d = c*N + k with the decided comparison (d op 0) == truth.  Returns False when
        the refined set is not an interval (N != k0): the caller splits further."""
        import math
        a, c, k = self.size_predicate(d)
        x0 = Fraction(-k) / Fraction(c)               # d == 0 at N == x0
        if not truth:
            op = {'<': '>=', '<=': '>', '>': '<=', '>=': '<', '==': '!=', '!=': '=='}[op]
        if c < 0 and op in ('<', '<=', '>', '>='):
            op = {'<': '>', '<=': '>=', '>': '<', '>=': '<='}[op]     # in terms of N - x0
        lo, hi = self.nsym_min[a], self.nsym_max.get(a)
        if op == '>':
            lo = max(lo, math.floor(x0) + 1)
        elif op == '>=':
            lo = max(lo, math.ceil(x0))
        elif op == '<':
            h = math.ceil(x0) - 1
            hi = h if hi is None else min(hi, h)
        elif op == '<=':
            h = math.floor(x0)
            hi = h if hi is None else min(hi, h)
        elif op == '==':
            if x0.denominator != 1:
                raise AnalysisError("size comparison decided true for a non-integer size")
            lo = max(lo, int(x0))
            hi = int(x0) if hi is None else min(hi, int(x0))
        else:
            return False
        if hi is not None and hi < lo:
            raise AnalysisError(f"infeasible size range [{lo}, {hi}] after a decided size comparison")
        self.nsym_min[a] = lo
        if hi is not None:
            self.nsym_max[a] = hi
        self.assumptions.append(f"size comparison {d} {op} 0 assumed on this path: {lo} <= N" + (f" <= {hi}" if hi is not None else ''))
        return True

    def is_index_like(self, r: Rat):
        if r.den:
            return False
        for a in r.num.atoms():
            if a not in self.nsyms and a not in self.bounds:
                return False
        return True


# ----------------------------------------------------------------------------------------------
def R(x):
    return x if isinstance(x, Rat) else Rat.of(x)


ONE = Rat.const(1)
ZERO = Rat.const(0)


def shape_prod(shape):
    p = ONE
    for s in shape:
        p = p * s
    return p


class Arr:
    """immutable abstract array"""
    __slots__ = ('shape', 'fn', 'kind', 'tag', 'origin', 'segs', 'affine', '_memo', 'label', 'root')

    def __init__(self, shape, fn, kind='real', tag=None, origin=None, segs=None, affine=None, label=None, root=None):
        self.shape = tuple(R(s) for s in shape)
        self.fn = fn
        self.kind = kind            # 'real' | 'int' | 'bool'
        self.tag = tag              # optional fn(idx) -> tuple of Rat : cell multi-index of an int value
        self.origin = origin
        self.segs = segs            # for flat concatenations: list of Arr (each ravelled in C order)
        self.affine = affine        # for int index arrays: (axis, lo Rat) meaning value = lo + idx[axis]
        self._memo = {}
        self.label = label
        self.root = root            # name of the input storage this array is (a view of), for purity

    @property
    def ndim(self):
        return len(self.shape)

    def at(self, idx):
        idx = tuple(R(i) for i in idx)
        if len(idx) != len(self.shape):
            raise AnalysisError(f"index arity {len(idx)} for array of ndim {len(self.shape)}")
        k = tuple(i.key() for i in idx)
        v = self._memo.get(k)
        if v is None:
            v = self.fn(idx)
            self._memo[k] = v
        return v

    def tag_at(self, idx):
        if self.tag is None:
            return None
        return self.tag(tuple(R(i) for i in idx))

    def size(self):
        return shape_prod(self.shape)

    def concrete_shape(self):
        try:
            return tuple(s.as_int() for s in self.shape)
        except ValueError:
            return None

    def __repr__(self):
        return f"<Arr {self.kind} shape=({', '.join(map(str, self.shape))})" + (f" segs={len(self.segs)}" if self.segs else '') + ">"


_INT_HEADS_BASE = ('N', 't', 'z', 'loop')
_INT_HEADS = _INT_HEADS_BASE


def set_int_heads(extra=()):
    """atom heads whose values are integers in the current world (index symbols always; the face positions too when the
    world models integer-dtype face arrays: a scalar taken out of such an array is an integer scalar)"""
    global _INT_HEADS
    _INT_HEADS = tuple(_INT_HEADS_BASE) + tuple(extra)



def scalar_kind(r):
    if not r.is_poly():
        return 'real'
    for a in r.atoms():
        k = atom_key(a)
        if not (isinstance(k, tuple) and k and k[0] in _INT_HEADS):
            return 'real'
    for c in r.num.t.values():
        if c.denominator != 1:
            return 'real'
    return 'int'


def scalar_arr(v, kind='real'):
    return Arr((), lambda idx: v, kind)


def const_arr(shape, v, kind='real'):
    return Arr(shape, lambda idx: v, kind)


class Box:
    """mutable array variable (numpy ndarray object identity)."""
    _count = 0

    def __init__(self, arr: Arr, frozen=None, name=None):
        self.cur = arr
        self.log = []          # list of (keyinfo, value Arr, lineno)   scatter writes, in order
        self.base_zero = False
        self.frozen = frozen   # name of the input storage (writes are purity violations)
        self.attrs = {}
        self.name = name
        Box._count += 1
        self.id = Box._count

    def snap(self) -> Arr:
        return self.cur

    def __repr__(self):
        return f"<Box#{self.id} {self.cur!r}>"


class View:
    """result of basic/advanced indexing of a Box; resolved at use (numpy view semantics for reads)"""

    def __init__(self, base, key, ctx, lineno=None):
        self.base = base       # Box or View
        self.key = key
        self.ctx = ctx
        self.lineno = lineno
        self.attrs = {}

    def snap(self) -> Arr:
        return index_arr(self.ctx, snap(self.base), self.key)

    def root_box(self):
        b = self.base
        while isinstance(b, View):
            b = b.base
        return b

    def __repr__(self):
        return f"<View of {self.base!r}>"


def snap(x) -> Arr:
    if isinstance(x, Arr):
        return x
    if isinstance(x, (Box, View)):
        return x.snap()
    if isinstance(x, Rat):
        return scalar_arr(x, scalar_kind(x))
    if isinstance(x, bool):
        return scalar_arr(Rat.const(1 if x else 0), 'bool')
    if isinstance(x, (int, Fraction)):
        return scalar_arr(Rat.const(x))
    if isinstance(x, (list, tuple)):
        return list_to_arr(x)
    raise AnalysisError(f"not an array-like value: {type(x).__name__}")


def is_arraylike(x):
    return isinstance(x, (Arr, Box, View))


def list_to_arr(lst):
    items = [snap(x) for x in lst]
    n = len(items)
    if n == 0:
        return Arr((ZERO,), lambda idx: (_ for _ in ()).throw(AnalysisError("read from empty array")))
    sub = items[0].shape
    for it in items:
        if len(it.shape) != len(sub):
            raise AnalysisError("ragged list -> array")
    kind = 'int' if all(i.kind == 'int' for i in items) else 'real'

    def fn(idx):
        k = idx[0].as_int()
        return items[k].at(idx[1:])
    return Arr((Rat.const(n),) + tuple(sub), fn, kind)


# ----------------------------------------------------------------------------------------------
# indexing
# ----------------------------------------------------------------------------------------------
class Sl:
    __slots__ = ('lo', 'hi')

    def __init__(self, lo, hi):
        self.lo = lo
        self.hi = hi


NEWAXIS = 'newaxis'
ELLIPSIS = 'ellipsis'


def _norm_bound(ctx, b, L, default):
    if b is None:
        return default
    b = R(b)
    if ctx.is_index_like(b):
        s = ctx.sign(b)
        if s == '-':
            b = b + L
            if ctx.sign(b) == '-':
                b = ZERO
            return b
        if s is None:
            raise AnalysisError(f"slice bound of unknown sign: {b}")
        # clip to L
        if not ctx.le(b, L):
            return L
        return b
    raise AnalysisError(f"non-index slice bound {b}")


def _norm_int(ctx, i, L, what='index'):
    i = R(i)
    s = ctx.sign(i)
    if s is None:
        raise AnalysisError(f"{what} of unknown sign: {i}")
    if s == '-':
        i = i + L
        if ctx.sign(i) == '-':
            raise AbstractRaise('IndexError', f"index {i - L} out of bounds for axis of size {L}")
    if not ctx.lt(i, L):
        raise AbstractRaise('IndexError', f"index {i} out of bounds for axis of size {L}")
    return i


def expand_key(key, ndim):
    """key: tuple of items (Rat int | Sl | NEWAXIS | ELLIPSIS | Arr | list). Expand ellipsis and pad."""
    if not isinstance(key, tuple):
        key = (key,)
    n_consuming = sum(1 for k in key if k is not NEWAXIS and k is not ELLIPSIS)
    out = []
    seen_ell = False
    for k in key:
        if k is ELLIPSIS:
            if seen_ell:
                raise AnalysisError("two ellipses")
            seen_ell = True
            out.extend([Sl(None, None)] * (ndim - n_consuming))
        else:
            out.append(k)
    n_consuming2 = sum(1 for k in out if k is not NEWAXIS)
    if n_consuming2 > ndim:
        raise AbstractRaise('IndexError', f"too many indices for array: array is {ndim}-dimensional, but {n_consuming2} were indexed")
    out.extend([Sl(None, None)] * (ndim - n_consuming2))
    return tuple(out)


def broadcast_shapes(ctx, shapes):
    nd = max((len(s) for s in shapes), default=0)
    out = []
    for ax in range(nd):
        dim = None
        for s in shapes:
            k = ax - (nd - len(s))
            if k < 0:
                continue
            d = s[k]
            if d.is_const() and d.const_value() == 1:
                continue
            if dim is None:
                dim = d
            elif not (dim - d).is_zero():
                raise AbstractRaise('ValueError', f"operands could not be broadcast together with shapes {[tuple(map(str, s)) for s in shapes]}")
        out.append(dim if dim is not None else ONE)
    return tuple(out)


def bcast_index(shape, out_idx):
    """map an index of the broadcast result to an index of an operand of `shape`"""
    nd = len(out_idx)
    k0 = nd - len(shape)
    res = []
    for k, d in enumerate(shape):
        if d.is_const() and d.const_value() == 1:
            res.append(ZERO)
        else:
            res.append(out_idx[k0 + k])
    return tuple(res)


def _masked_raise(idx):
    raise AnalysisError("boolean-mask selection read by position (its length is data dependent); only `x[mask] = f(y[mask], ..)` with the same mask is modelled")


def masked_of(a):
    return a.label if (isinstance(a, Arr) and isinstance(a.label, tuple) and a.label and a.label[0] == 'masked') else None


def masked_sel(mask: Arr, full: Arr):
    """x[mask] for a boolean mask of x's shape: a 1-D array of data-dependent length.  Modelled only as an operand of elementwise
    arithmetic with selections through the *same* mask (and scalars) and as the value of `y[mask] = ...` with that mask: the
    pair (mask, full-shape array) is carried along, so that the store becomes where(mask, full, y)."""
    n = Rat.atom(('nsel', id(mask)))
    return Arr((n,), _masked_raise, full.kind, label=('masked', mask, full))


def index_arr(ctx: Ctx, a: Arr, key) -> Arr:
    if masked_of(a):
        raise AnalysisError("indexing a boolean-mask selection")
    kk = key if isinstance(key, tuple) else (key,)
    if len(kk) == 1 and (isinstance(kk[0], Arr) or is_arraylike(kk[0])) and snap(kk[0]).kind == 'bool' and snap(kk[0]).ndim == a.ndim and a.ndim >= 1:
        m = snap(kk[0])
        if all((x - y).is_zero() for x, y in zip(m.shape, a.shape)):
            return masked_sel(m, a)
    key = expand_key(key, a.ndim)
    adv = [k for k in key if isinstance(k, (Arr, list)) or is_arraylike(k)]
    if not adv:
        return _index_basic(ctx, a, key)
    return _index_advanced(ctx, a, key)


def _index_basic(ctx, a: Arr, key):
    # plan: list per result axis of ('new',) | ('slice', base_axis, lo) ; fixed: base_axis -> value
    fixed = {}
    plan = []
    shape = []
    ax = 0
    for k in key:
        if k is NEWAXIS:
            plan.append(None)
            shape.append(ONE)
            continue
        L = a.shape[ax]
        if isinstance(k, Sl):
            lo = _norm_bound(ctx, k.lo, L, ZERO)
            hi = _norm_bound(ctx, k.hi, L, L)
            n = hi - lo
            if ctx.sign(n) == '-':
                n = ZERO
            plan.append((ax, lo))
            shape.append(n)
        else:
            fixed[ax] = _norm_int(ctx, k, L)
        ax += 1
    nbase = a.ndim
    afn, atag = a.at, a.tag

    def mapidx(idx):
        base = [None] * nbase
        for bax, v in fixed.items():
            base[bax] = v
        for r, pl in enumerate(plan):
            if pl is not None:
                base[pl[0]] = idx[r] + pl[1]
        return tuple(base)

    def fn(idx):
        return afn(mapidx(idx))
    tag = (lambda idx: atag(mapidx(idx))) if atag is not None else None
    segs = None
    label = a.label
    # full-length prefix slice of a flat concatenation keeps its segments
    if a.segs is not None and len(key) == 1 and isinstance(key[0], Sl):
        lo = plan[0][1]
        if lo.is_zero() and (shape[0] - a.shape[0]).is_zero():
            segs = a.segs
        elif not all(s.ndim <= 1 for s in a.segs):
            label = ('truncated-flat', a.shape[0])
    affine = None
    if a.affine is not None:
        bax, lo0 = a.affine
        if bax in fixed:
            affine = None
        else:
            for r, pl in enumerate(plan):
                if pl is not None and pl[0] == bax:
                    affine = (r, lo0 + pl[1])
    return Arr(shape, fn, a.kind, tag=tag, origin=a.origin, segs=segs, affine=affine, label=label, root=a.root)


def _index_advanced(ctx, a: Arr, key):
    items = []
    for k in key:
        if is_arraylike(k) or isinstance(k, list):
            items.append(snap(k))
        else:
            items.append(k)
    has_new = any(k is NEWAXIS for k in items)
    if has_new:
        raise AnalysisError("newaxis together with advanced indexing")
    # which positions are advanced (arrays and ints)
    is_adv = [isinstance(k, Arr) or isinstance(k, Rat) for k in items]
    adv_pos = [i for i, f in enumerate(is_adv) if f]
    adjacent = adv_pos == list(range(adv_pos[0], adv_pos[-1] + 1))
    adv_arrs = []
    for i in adv_pos:
        k = items[i]
        L = a.shape[i]
        if isinstance(k, Rat):
            adv_arrs.append(scalar_arr(_norm_int(ctx, k, L), 'int'))
        else:
            if k.kind == 'bool':
                raise AnalysisError("boolean mask read is not modelled")
            adv_arrs.append(_wrap_negative(ctx, k, L))
    bshape = broadcast_shapes(ctx, [x.shape for x in adv_arrs])
    nb = len(bshape)
    sl_info = []   # for slice positions: (base axis, lo, n)
    for i, k in enumerate(items):
        if not is_adv[i]:
            L = a.shape[i]
            lo = _norm_bound(ctx, k.lo, L, ZERO)
            hi = _norm_bound(ctx, k.hi, L, L)
            n = hi - lo
            sl_info.append((i, lo, n))
    # result layout
    if adjacent:
        first = adv_pos[0]
        pre = [s for s in sl_info if s[0] < first]
        post = [s for s in sl_info if s[0] > first]
        shape = [s[2] for s in pre] + list(bshape) + [s[2] for s in post]
        b_off = len(pre)
        sl_res = {s[0]: r for r, s in enumerate(pre)}
        sl_res.update({s[0]: len(pre) + nb + r for r, s in enumerate(post)})
    else:
        shape = list(bshape) + [s[2] for s in sl_info]
        b_off = 0
        sl_res = {s[0]: nb + r for r, s in enumerate(sl_info)}
    sl_lo = {s[0]: s[1] for s in sl_info}
    afn, atag = a.at, a.tag
    nbase = a.ndim

    def mapidx(idx):
        bidx = idx[b_off:b_off + nb]
        base = [None] * nbase
        for arr, pos in zip(adv_arrs, adv_pos):
            base[pos] = arr.at(bcast_index(arr.shape, bidx))
        for pos, r in sl_res.items():
            base[pos] = idx[r] + sl_lo[pos]
        return tuple(base)

    def fn(idx):
        return afn(mapidx(idx))
    tag = (lambda idx: atag(mapidx(idx))) if atag is not None else None
    return Arr(shape, fn, a.kind, tag=tag, origin=a.origin, label=a.label, root=a.root)


def _wrap_negative(ctx, k: Arr, L):
    """index arrays with concrete negative entries wrap around (e.g. [0,-1])"""
    cs = k.concrete_shape()
    if cs is None:
        return k
    kfn = k.at

    def fn(idx):
        v = kfn(idx)
        if v.is_const() and v.const_value() < 0:
            return v + L
        return v
    return Arr(k.shape, fn, 'int', affine=k.affine, tag=k.tag, segs=k.segs)


# ----------------------------------------------------------------------------------------------
# assignment   box[key] = value
# ----------------------------------------------------------------------------------------------
def _trunc(v: Rat) -> Rat:
    """value stored into an integer array: numpy truncates towards zero without a warning"""
    if v.is_const():
        return Rat.const(int(v.const_value()))
    if scalar_kind(v) == 'int':
        return v
    return opaque_fn('trunc', v)


def assign_index(ctx: Ctx, box: Box, key, value, lineno=None):
    old = box.cur
    key = expand_key(key, old.ndim)
    val = snap(value)
    if old.kind == 'int' and val.kind == 'real':
        val = elementwise(ctx, _trunc, [val], kind='int', origin=val.origin)      # keeps the block structure of flat arrays
    items = []
    for k in key:
        if is_arraylike(k) or isinstance(k, list):
            items.append(snap(k))
        else:
            items.append(k)
    if any(k is NEWAXIS for k in items):
        raise AnalysisError("newaxis in assignment target")
    # boolean mask
    if len(items) >= 1 and isinstance(items[0], Arr) and items[0].kind == 'bool':
        if len([k for k in items if not (isinstance(k, Sl) and k.lo is None and k.hi is None)]) != 1:
            raise AnalysisError("mask mixed with other indices")
        mask = items[0]
        if len(mask.shape) != old.ndim:
            raise AnalysisError("mask of different rank")
        mv = masked_of(val)
        if mv:
            if mv[1] is not mask:
                raise AnalysisError("x[mask] = y[mask2]: the two masks are not the same object")
            full = mv[2]
            ofn, mfn = old.at, mask.at

            def fnm(idx):
                m = mfn(idx)
                return ofn(idx) * (1 - m) + full.at(idx) * m
            box.cur = Arr(old.shape, fnm, old.kind, origin=lineno, label=old.label)
            box.log.append((('mask',), full, lineno))
            return
        if val.ndim != 0:
            raise AnalysisError("masked assignment of a non-scalar")
        v0 = val.at(())
        ofn, mfn = old.at, mask.at

        def fn(idx):
            m = mfn(idx)
            return ofn(idx) * (1 - m) + v0 * m
        box.cur = Arr(old.shape, fn, old.kind, origin=lineno, label=old.label)
        box.log.append((('mask',), val, lineno))
        return
    any_arr = any(isinstance(k, Arr) for k in items)
    if not any_arr:
        _assign_basic(ctx, box, items, val, lineno)
    else:
        _assign_advanced(ctx, box, items, val, lineno)


def _assign_basic(ctx, box, items, val, lineno):
    old = box.cur
    conds = []      # per base axis: ('eq', v) | ('rng', lo, hi)
    res_axes = []   # base axes that survive (slices), in order
    shape = []
    for ax, k in enumerate(items):
        L = old.shape[ax]
        if isinstance(k, Sl):
            lo = _norm_bound(ctx, k.lo, L, ZERO)
            hi = _norm_bound(ctx, k.hi, L, L)
            conds.append(('rng', lo, hi))
            res_axes.append(ax)
            shape.append(hi - lo)
        else:
            conds.append(('eq', _norm_int(ctx, k, L)))
    # value broadcasting to `shape` (leading 1-axes of the value may be dropped)
    vshape = val.shape
    while len(vshape) > len(shape) and vshape[0].is_const() and vshape[0].const_value() == 1:
        val = index_arr(ctx, val, (Rat.const(0),) + (Sl(None, None),) * (len(vshape) - 1))
        vshape = val.shape
    if len(vshape) > len(shape):
        raise AbstractRaise('ValueError', f"could not broadcast input array from shape {tuple(map(str, vshape))} into shape {tuple(map(str, shape))}")
    broadcast_shapes(ctx, [tuple(shape), vshape])   # raises on mismatch
    for d_t, d_v in zip(shape[len(shape) - len(vshape):], vshape):
        if not (d_v.is_const() and d_v.const_value() == 1) and not (d_t - d_v).is_zero():
            raise AbstractRaise('ValueError', "could not broadcast input array into target shape")
    ofn, vfn = old.at, val.at
    otag, vtag = old.tag, val.tag

    def hit(idx):
        for ax, c in enumerate(conds):
            if c[0] == 'eq':
                if not ctx.eq(idx[ax], c[1]):
                    return None
            else:
                if not (ctx.le(c[1], idx[ax]) and ctx.lt(idx[ax], c[2])):
                    return None
        ridx = tuple(idx[ax] - conds[ax][1] for ax in res_axes)
        return bcast_index(vshape, ridx)

    def fn(idx):
        h = hit(idx)
        return ofn(idx) if h is None else vfn(h)

    tag = None
    if otag is not None or vtag is not None:
        def tag(idx):
            h = hit(idx)
            if h is None:
                return otag(idx) if otag else None
            return vtag(h) if vtag else None
    kind = old.kind if (old.kind == val.kind or val.kind == 'int') else 'real'
    box.cur = Arr(old.shape, fn, kind, tag=tag, origin=lineno, label=old.label)
    box.log.append((('basic', tuple(conds)), val, lineno))


def _assign_advanced(ctx, box, items, val, lineno):
    old = box.cur
    # every item: Rat int, Sl, or Arr (int).  Build broadcast of the advanced ones.
    is_adv = [isinstance(k, (Arr, Rat)) for k in items]
    adv_pos = [i for i, f in enumerate(is_adv) if f]
    adjacent = adv_pos == list(range(adv_pos[0], adv_pos[-1] + 1))
    adv = []
    for i in adv_pos:
        k = items[i]
        L = old.shape[i]
        if isinstance(k, Rat):
            adv.append(scalar_arr(_norm_int(ctx, k, L), 'int'))
        else:
            adv.append(_wrap_negative(ctx, k, L))
    bshape = broadcast_shapes(ctx, [x.shape for x in adv])
    nb = len(bshape)
    sl_info = []
    for i, k in enumerate(items):
        if not is_adv[i]:
            L = old.shape[i]
            lo = _norm_bound(ctx, k.lo, L, ZERO)
            hi = _norm_bound(ctx, k.hi, L, L)
            sl_info.append((i, lo, hi))
    if adjacent:
        first = adv_pos[0]
        pre = [s for s in sl_info if s[0] < first]
        post = [s for s in sl_info if s[0] > first]
        shape = [s[2] - s[1] for s in pre] + list(bshape) + [s[2] - s[1] for s in post]
        b_off = len(pre)
        sl_res = {s[0]: r for r, s in enumerate(pre)}
        sl_res.update({s[0]: len(pre) + nb + r for r, s in enumerate(post)})
    else:
        shape = list(bshape) + [s[2] - s[1] for s in sl_info]
        b_off = 0
        sl_res = {s[0]: nb + r for r, s in enumerate(sl_info)}
    sl_rng = {s[0]: (s[1], s[2]) for s in sl_info}
    vshape = val.shape
    while len(vshape) > len(shape) and vshape[0].is_const() and vshape[0].const_value() == 1:
        val = index_arr(ctx, val, (Rat.const(0),) + (Sl(None, None),) * (len(vshape) - 1))
        vshape = val.shape
    if len(vshape) > len(shape):
        raise AbstractRaise('ValueError', "shape mismatch: value array cannot be broadcast to indexing result")
    broadcast_shapes(ctx, [tuple(shape), vshape])
    for d_t, d_v in zip(shape[len(shape) - len(vshape):], vshape):
        if not (d_v.is_const() and d_v.const_value() == 1) and not (d_t - d_v).is_zero():
            raise AbstractRaise('ValueError', f"shape mismatch: value array of shape {tuple(map(str, vshape))} could not be broadcast to indexing result of shape {tuple(map(str, shape))}")
    if old.ndim == 1 and len(adv) == 1 and adv[0].ndim == 1 and adv[0].affine is None and \
            (adv[0].segs is not None or adv[0].tag is not None):
        # scatter into a flat vector through an array of cell numbers: keep the write log only;
        # such vectors are read row-wise through the log (never by flat position)
        def fnsc(idx):
            raise AnalysisError("scatter-assembled flat vector read by position")
        box.cur = Arr(old.shape, fnsc, old.kind, origin=lineno, label=('scattered',))
        box.log.append((('cellscatter', adv[0]), val, lineno))
        return
    # solve the advanced part: every advanced array must be scalar or affine along one broadcast axis,
    # or the broadcast shape must be concrete (enumeration)
    solvers = []
    enumerate_mode = False
    used_axes = set()
    for arr, pos in zip(adv, adv_pos):
        if arr.ndim == 0 or all(d.is_const() and d.const_value() == 1 for d in arr.shape):
            solvers.append(('eq', pos, arr.at(tuple(ZERO for _ in arr.shape))))
        elif arr.affine is not None:
            ax, lo = arr.affine
            bax = ax + (nb - arr.ndim)
            if bax in used_axes:
                enumerate_mode = True
            used_axes.add(bax)
            solvers.append(('aff', pos, bax, lo, bshape[bax]))
        else:
            enumerate_mode = True
    conc = None
    if enumerate_mode and old.ndim == 1 and len(adv) == 1 and adv[0].ndim == 1 and (adv[0].segs is not None or adv[0].tag is not None):
        # scatter into a flat vector through an array of cell numbers: keep the write log only;
        # such vectors are read row-wise through the log (never by flat position)
        prev = old

        def fn(idx):
            raise AnalysisError("scatter-assembled flat vector read by position")
        box.cur = Arr(old.shape, fn, old.kind, origin=lineno, label=('scattered',))
        box.log.append((('cellscatter', adv[0]), val, lineno))
        return
    if enumerate_mode:
        try:
            conc = tuple(d.as_int() for d in bshape)
        except ValueError:
            raise AnalysisError("advanced assignment with non-affine symbolic index arrays")
    ofn, vfn = old.at, val.at
    otag, vtag = old.tag, val.tag

    def hit(idx):
        bidx = [ZERO] * nb
        if conc is None:
            for s in solvers:
                if s[0] == 'eq':
                    if not ctx.eq(idx[s[1]], s[2]):
                        return None
                else:
                    _, pos, bax, lo, n = s
                    m = idx[pos] - lo
                    if not (ctx.le(ZERO, m) and ctx.lt(m, n)):
                        return None
                    bidx[bax] = m
        else:
            found = None
            import itertools
            for cand in itertools.product(*[range(n) for n in conc]):
                cb = tuple(Rat.const(c) for c in cand)
                ok = True
                for arr, pos in zip(adv, adv_pos):
                    if not ctx.eq(idx[pos], arr.at(bcast_index(arr.shape, cb))):
                        ok = False
                        break
                if ok:
                    found = cb      # last write wins
            if found is None:
                return None
            bidx = list(found)
        ridx = [None] * len(shape)
        for k in range(nb):
            ridx[b_off + k] = bidx[k]
        for pos, r in sl_res.items():
            lo, hi = sl_rng[pos]
            if not (ctx.le(lo, idx[pos]) and ctx.lt(idx[pos], hi)):
                return None
            ridx[r] = idx[pos] - lo
        return bcast_index(vshape, tuple(ridx))

    def fn(idx):
        h = hit(idx)
        return ofn(idx) if h is None else vfn(h)
    tag = None
    if otag is not None or vtag is not None:
        def tag(idx):
            h = hit(idx)
            if h is None:
                return otag(idx) if otag else None
            return vtag(h) if vtag else None
    kind = old.kind if (old.kind == val.kind or val.kind == 'int') else 'real'
    box.cur = Arr(old.shape, fn, kind, tag=tag, origin=lineno, label=old.label)
    # log for scatter-assembled flat arrays
    box.log.append((('adv', tuple(adv), tuple(adv_pos), tuple(bshape), tuple(shape)), val, lineno))


# ----------------------------------------------------------------------------------------------
# elementwise operations
# ----------------------------------------------------------------------------------------------
def elementwise(ctx, f, args, kind='real', origin=None):
    arrs = [snap(a) for a in args]
    ms = [masked_of(a) for a in arrs]
    if any(ms):
        mask = next(m for m in ms if m)[1]
        full = []
        for a, m in zip(arrs, ms):
            if m:
                if m[1] is not mask:
                    raise AnalysisError("elementwise operation on selections through different boolean masks")
                full.append(m[2])
            elif a.ndim == 0:
                full.append(a)
            else:
                raise AnalysisError("elementwise operation mixing a boolean-mask selection with a full array")
        return masked_sel(mask, elementwise(ctx, f, full, kind, origin))
    segd = [a for a in arrs if a.segs is not None and not all(s.ndim <= 1 for s in a.segs)]
    if segd:
        # flat (ravelled) operands: operate block by block, keep the block structure
        n = len(segd[0].segs)
        ok = all(a.ndim == 0 or (a.segs is not None and len(a.segs) == n) for a in arrs)
        if ok:
            for k in range(n):
                shp = segd[0].segs[k].shape
                for a in arrs:
                    if a.ndim and (len(a.segs[k].shape) != len(shp) or any(not (x - y).is_zero() for x, y in zip(a.segs[k].shape, shp))):
                        ok = False
        if not ok:
            # same total length but different block structure: numpy adds position by position; the
            # element order of the blocks differs -> not modelled position-wise
            raise AnalysisError("elementwise operation on flat arrays with different block structure")
        segs = []
        for k in range(n):
            segs.append(elementwise(ctx, f, [a if a.ndim == 0 else a.segs[k] for a in arrs], kind, origin))
        total = segd[0].shape[0]

        def fnflat(idx):
            raise AnalysisError("flat (ravelled) array read by position; only segment-wise access is modelled")
        return Arr((total,), fnflat, kind, origin=origin, segs=segs)
    shape = broadcast_shapes(ctx, [a.shape for a in arrs])
    fns = [(a.at, a.shape) for a in arrs]

    def fn(idx):
        return f(*[g(bcast_index(sh, idx)) for g, sh in fns])
    return Arr(shape, fn, kind, origin=origin)


def compare_scalar(ctx, op, a: Rat, b: Rat):
    """comparison of two scalars: Python bool if decidable as an index comparison, else indicator Rat"""
    d = a - b
    if d.is_const():
        v = d.const_value()
        return {'<': v < 0, '<=': v <= 0, '>': v > 0, '>=': v >= 0, '==': v == 0, '!=': v != 0}[op]
    if ctx.is_index_like(d):
        s = ctx.sign(d)
        if s is not None:
            return {'<': s == '-', '<=': s in '-0', '>': s == '+', '>=': s in '+0', '==': s == '0', '!=': s != '0'}[op]
        # a comparison of a cell count with a constant that the size range does not decide (`if Nx > 50:`): both outcomes are
        # feasible, so the job is explored once per outcome with the size range refined accordingly (interp.JobFork)
        sp = ctx.size_predicate(d)
        if sp is not None:
            from . import interp as _I
            fk = _I.JOB_FORK
            if fk is not None:
                where = f"size comparison {a} {op} {b}"
                truth = fk.decide(Rat.atom(('sizepred', op, str(d))), where)
                if not ctx.assume_size(d, op, truth):
                    # N != x0: split into N < x0 and N > x0
                    below = fk.decide(Rat.atom(('sizepred', '<', str(d))), f"size comparison {a} < {b}")
                    c_ = sp[1]
                    ctx.assume_size(d, '<' if c_ > 0 else '>', True) if below else ctx.assume_size(d, '>' if c_ > 0 else '<', True)
                return truth
        if op in ('==', '!='):
            e = ctx.eq(a, b)
            return e if op == '==' else not e
        raise AnalysisError(f"undecidable index comparison {a} {op} {b}")
    return indicator(op, d)


def indicator(op, d: Rat) -> Rat:
    remember(d)
    if op == '>':
        return ind('>0', d)
    if op == '<':
        return ind('<0', d)
    if op == '==':
        return ind('==0', d)
    if op == '>=':
        return 1 - ind('<0', d)
    if op == '<=':
        return 1 - ind('>0', d)
    if op == '!=':
        return 1 - ind('==0', d)
    raise AnalysisError(f"comparison {op}")


ABS_HOOK = None     # set by the current World: fn(Rat) -> '+','-','0',None
ODD_FUNCS = {'sin', 'tan', 'sign'}     # f(-x) = -f(x) exactly; 'fsign' is added temporarily by C08.A3 after its guard check


def opaque_fn(name, x: Rat) -> Rat:
    if name == 'abs' and x.is_const():
        return Rat.const(abs(x.const_value()))
    if name == 'abs' and ABS_HOOK is not None:
        s = ABS_HOOK(x)
        if s in ('+', '0'):
            return x
        if s == '-':
            return -x
    if name in ODD_FUNCS and x.coef < 0:
        return -opaque_fn(name, -x)
    if x.is_const():
        v = x.const_value()
        if name in ('sin',) and v == 0:
            return ZERO
        if name == 'exp' and v == 0:
            return ONE
        if name == 'log' and v == 1:
            return ZERO
        if name == 'sign':
            return Rat.const((v > 0) - (v < 0))
    return Rat.atom(('fn', name, x))


# ----------------------------------------------------------------------------------------------
# constructors / shape manipulation
# ----------------------------------------------------------------------------------------------
def to_shape(ctx, s):
    """shape argument: int Rat | tuple/list of Rats | int Arr with concrete length"""
    if isinstance(s, Rat):
        return (s,)
    if isinstance(s, (tuple, list)):
        out = []
        for x in s:
            if is_arraylike(x):
                x = snap(x)
                if x.ndim != 0:
                    raise AnalysisError("nested shape")
                x = x.at(())
            out.append(R(x))
        return tuple(out)
    if is_arraylike(s):
        a = snap(s)
        if a.ndim == 0:
            return (a.at(()),)
        n = a.shape[0].as_int()
        return tuple(a.at((Rat.const(i),)) for i in range(n))
    raise AnalysisError(f"bad shape argument {s!r}")


def arange_arr(lo: Rat, hi_excl: Rat):
    n = hi_excl - lo
    return Arr((n,), lambda idx: lo + idx[0], 'int', affine=(0, lo),
               tag=lambda idx: (lo + idx[0],))


def ravel_arr(ctx, a: Arr):
    if a.segs is not None:
        return a
    if a.ndim == 1:
        return Arr(a.shape, a.fn, a.kind, tag=a.tag, origin=a.origin, segs=[a], affine=a.affine, label=a.label, root=a.root)
    total = a.size()

    def fn(idx):
        raise AnalysisError("flat (ravelled) array read by position; only segment-wise access is modelled")
    return Arr((total,), fn, a.kind, origin=a.origin, segs=[a], label=a.label, root=a.root)


def _seg_len(s: Arr):
    return s.size()


def flat_concat(ctx, pieces, origin=None):
    """np.hstack of 0-D / 1-D / flat pieces -> flat Arr with segs"""
    segs = []
    for p in pieces:
        a = snap(p)
        if a.segs is not None:
            segs.extend(a.segs)
        elif a.ndim <= 1:
            segs.append(a)
        else:
            raise AnalysisError("flat_concat of nd array")
    total = ZERO
    offs = []
    for s in segs:
        offs.append(total)
        total = total + _seg_len(s)
    kind = 'int' if all(s.kind == 'int' for s in segs) else 'real'
    simple = all(s.ndim <= 1 for s in segs)

    def locate(i):
        for s, off in zip(segs, offs):
            n = _seg_len(s)
            if ctx.le(off, i) and ctx.lt(i, off + n):
                return s, i - off
        raise AbstractRaise('IndexError', f"flat index {i} out of range")

    def fn(idx):
        if not simple:
            raise AnalysisError("flat (ravelled) array read by position; only segment-wise access is modelled")
        s, j = locate(idx[0])
        return s.at(()) if s.ndim == 0 else s.at((j,))

    def tag(idx):
        if not simple:
            return None
        s, j = locate(idx[0])
        if s.tag is None:
            return None
        return s.tag(()) if s.ndim == 0 else s.tag((j,))
    return Arr((total,), fn, kind, tag=tag, origin=origin, segs=segs)


def hstack(ctx, pieces, origin=None):
    arrs = [snap(p) for p in pieces]
    if all(a.ndim <= 1 for a in arrs):
        return flat_concat(ctx, arrs, origin)
    # axis-1 concatenation of >=2-D arrays
    nd = arrs[0].ndim
    if any(a.ndim != nd for a in arrs):
        raise AbstractRaise('ValueError', "all the input array dimensions except for the concatenation axis must match exactly")
    for a in arrs[1:]:
        for ax in range(nd):
            if ax != 1 and not (a.shape[ax] - arrs[0].shape[ax]).is_zero():
                raise AbstractRaise('ValueError', "hstack: dimension mismatch")
    offs = []
    total = ZERO
    for a in arrs:
        offs.append(total)
        total = total + a.shape[1]
    shape = list(arrs[0].shape)
    shape[1] = total

    def fn(idx):
        j = idx[1]
        for a, off in zip(arrs, offs):
            if ctx.le(off, j) and ctx.lt(j, off + a.shape[1]):
                return a.at((idx[0], j - off) + tuple(idx[2:]))
        raise AbstractRaise('IndexError', "hstack index out of range")
    kind = 'int' if all(a.kind == 'int' for a in arrs) else 'real'
    r = Arr(shape, fn, kind, origin=origin)
    r.label = ('hstack_nd', arrs)
    return r


def tile(ctx, a, reps, origin=None):
    a = snap(a)
    if isinstance(reps, Rat):
        n = reps.as_int()
        if a.ndim > 1:
            raise AnalysisError("np.tile(nd, int)")
        return flat_concat(ctx, [a] * n, origin)
    reps = to_shape(ctx, reps)
    if len(reps) < a.ndim:
        reps = (ONE,) * (a.ndim - len(reps)) + tuple(reps)
    shp = (ONE,) * (len(reps) - a.ndim) + a.shape
    shape = []
    modes = []
    for d, r in zip(shp, reps):
        if r.is_const() and r.const_value() == 1:
            shape.append(d)
            modes.append('keep')
        elif d.is_const() and d.const_value() == 1:
            shape.append(r)
            modes.append('bcast')
        else:
            raise AnalysisError("np.tile repeating a non-unit axis")
    k0 = len(reps) - a.ndim

    def fn(idx):
        sub = []
        for k, m in enumerate(modes):
            if k < k0:
                continue
            sub.append(ZERO if m == 'bcast' else idx[k])
        return a.at(tuple(sub))
    return Arr(shape, fn, a.kind, origin=origin, root=a.root)


def reshape(ctx, a, shape, origin=None, order='C'):
    a = snap(a)
    shape = to_shape(ctx, shape)
    # one entry may be -1: numpy infers it from the size
    minus = [k for k, d in enumerate(shape) if d.is_const() and d.const_value() == -1]
    if len(minus) > 1:
        raise AbstractRaise('ValueError', 'can only specify one unknown dimension')
    if minus:
        rest = ONE
        for k, d in enumerate(shape):
            if k != minus[0]:
                rest = rest * d
        if rest.is_const() and rest.const_value() == 1:
            inferred = a.size()
        else:
            q = a.size() / rest
            if not q.den_poly().is_const():
                raise AnalysisError(f"reshape with -1: size {a.size()} is not visibly divisible by {rest}")
            inferred = q
        shape = tuple(inferred if k == minus[0] else d for k, d in enumerate(shape))
    if order != 'C':
        if a.ndim == 1 and a.label and a.label[0] == 'flatvec':
            # a solution vector reshaped in a non-C order does not land on the cells it was numbered for: keep the
            # values distinguishable from the C-order ones so that the comparison with the cell numbering fails
            nd = a.label[1](shape)
            return Arr(nd.shape, lambda idx: Rat.atom(('reshaped-in-order-' + str(order),) + tuple(idx)), 'real', origin=origin)
        raise AnalysisError(f"reshape order {order!r} is not modelled")
    if not (shape_prod(shape) - a.size()).is_zero():
        raise AbstractRaise('ValueError', f"cannot reshape array of size {a.size()} into shape {tuple(map(str, shape))}")
    if len(shape) == 1 and a.ndim > 1 and not (a.label and a.label[0] == 'flatvec'):
        return ravel_arr(ctx, a)               # nd -> (size,): the C-order ravel
    if a.ndim == 1 and a.label and a.label[0] == 'flatvec':
        # opaque flat vector indexed by C-order cell number -> nd array of the same atoms
        return a.label[1](shape)
    # dropping / adding unit axes only
    nz_a = [d for d in a.shape if not (d.is_const() and d.const_value() == 1)]
    nz_s = [d for d in shape if not (d.is_const() and d.const_value() == 1)]
    if len(nz_a) == len(nz_s) and all((x - y).is_zero() for x, y in zip(nz_a, nz_s)):
        src_axes = [k for k, d in enumerate(a.shape) if not (d.is_const() and d.const_value() == 1)]
        dst_axes = [k for k, d in enumerate(shape) if not (d.is_const() and d.const_value() == 1)]

        def fn(idx):
            base = [ZERO] * a.ndim
            for s, d in zip(src_axes, dst_axes):
                base[s] = idx[d]
            return a.at(tuple(base))
        return Arr(shape, fn, a.kind, tag=None, origin=origin, root=a.root)
    # 1-D arange -> nd : C-order numbering, tag = multi-index
    if a.ndim == 1 and a.affine is not None and a.kind == 'int':
        lo = a.affine[1]
        strides = []
        acc = ONE
        for d in reversed(shape):
            strides.append(acc)
            acc = acc * d
        strides = list(reversed(strides))

        def fn(idx):
            v = lo
            for i, s in zip(idx, strides):
                v = v + i * s
            return v
        tag = (lambda idx: tuple(idx)) if lo.is_zero() else None
        r = Arr(shape, fn, 'int', tag=tag, origin=origin)
        r.label = ('cellnum', tuple(strides))
        return r
    # flat (one segment) -> the segment's shape (solution vector -> grid): identity on a C-order ravel
    if a.segs is not None and len(a.segs) == 1 and len(a.segs[0].shape) == len(shape) and \
            all((x - y).is_zero() for x, y in zip(a.segs[0].shape, shape)):
        return a.segs[0]
    if a.ndim == 1 and a.label and a.label[0] == 'flatvec':
        # opaque flat vector indexed by C-order cell number -> nd array of the same atoms
        maker = a.label[1]
        return maker(shape)
    if a.ndim == 1 and a.segs is None and not a.label:
        # a plain 1-D array -> n-D in C order: element (i, j, ..) is the flat element at i*stride_i + j*stride_j + ..
        strides = []
        acc = ONE
        for d in reversed(shape):
            strides.append(acc)
            acc = acc * d
        strides = list(reversed(strides))

        def fn1(idx):
            pos = ZERO
            for i, s_ in zip(idx, strides):
                pos = pos + i * s_
            return a.at((pos,))
        return Arr(shape, fn1, a.kind, origin=origin, root=a.root)
    raise AnalysisError(f"reshape {tuple(map(str, a.shape))} -> {tuple(map(str, shape))} is not modelled")


def transpose(ctx, a):
    a = snap(a)
    n = a.ndim
    return Arr(tuple(reversed(a.shape)), lambda idx: a.at(tuple(reversed(idx))), a.kind, origin=a.origin, root=a.root)


# ----------------------------------------------------------------------------------------------
# flat vectors indexed by cell number (right-hand sides): linear combinations are kept symbolic
# ----------------------------------------------------------------------------------------------
def is_flatvec(x):
    if isinstance(x, Box):
        if any(w[0][0] == 'cellscatter' for w in x.log):
            return True
        x = x.cur
    if isinstance(x, Arr):
        return bool(x.label) and x.label[0] in ('scattered', 'flatvec', 'veclin')
    return False


def _clone_vec(x):
    if isinstance(x, Box):
        b = Box(x.cur)
        b.log = list(x.log)
        b.base_zero = x.base_zero
        return b
    return x


def veclin(ctx, op, a, b):
    """a (+|-) b for flat vectors, scalar * vector, vector / scalar -> Arr labelled ('veclin', [(coef, comp)])"""
    import ast as _ast
    t = type(op)

    def comps(x, c):
        x0 = x.cur if isinstance(x, Box) else x
        if isinstance(x0, Arr) and x0.label and x0.label[0] == 'veclin' and not (isinstance(x, Box) and x.log):
            return [(c * k, v) for k, v in x0.label[1]]
        return [(c, _clone_vec(x))]
    if t in (_ast.Add, _ast.Sub) and is_arraylike(a) and is_arraylike(b):
        sa, sb = snap(a), snap(b)
        if sa.ndim != 1 or sb.ndim != 1:
            return None
        if not (sa.shape[0] - sb.shape[0]).is_zero():
            raise AbstractRaise('ValueError', 'operands could not be broadcast together')
        parts = comps(a, ONE) + comps(b, ONE if t is _ast.Add else Rat.const(-1))
        shape = sa.shape
    elif t is _ast.Mult and isinstance(a, Rat) and is_arraylike(b):
        parts = comps(b, a)
        shape = snap(b).shape
    elif t is _ast.Mult and isinstance(b, Rat) and is_arraylike(a):
        parts = comps(a, b)
        shape = snap(a).shape
    elif t is _ast.Div and isinstance(b, Rat) and is_arraylike(a):
        parts = comps(a, 1 / b)
        shape = snap(a).shape
    else:
        return None

    def fn(idx):
        raise AnalysisError("linear combination of flat vectors read by position")
    return Arr(shape, fn, 'real', label=('veclin', parts))
