"""Small syntactic/CFG helpers for the path rules (typestate / effect rules)."""
from __future__ import annotations
import ast


def last_call_before_return(fi, method):
    """every `return <name>` of the function is immediately preceded (same block) by `<name>.<method>()`"""
    rets = []
    ok = True
    detail = []
    for parent in ast.walk(fi.node):
        for field in ('body', 'orelse', 'finalbody'):
            blk = getattr(parent, field, None)
            if not isinstance(blk, list):
                continue
            for i, st in enumerate(blk):
                if isinstance(st, ast.Return):
                    rets.append(st)
                    if not isinstance(st.value, ast.Name):
                        ok = False
                        detail.append(f"line {st.lineno}: returns a non-name")
                        continue
                    prev = blk[i - 1] if i > 0 else None
                    good = isinstance(prev, ast.Expr) and isinstance(prev.value, ast.Call) and isinstance(prev.value.func, ast.Attribute) \
                        and prev.value.func.attr == method and isinstance(prev.value.func.value, ast.Name) and prev.value.func.value.id == st.value.id
                    if not good:
                        ok = False
                        detail.append(f"line {st.lineno}: `return {st.value.id}` is not directly preceded by `{st.value.id}.{method}()`")
    if not rets:
        return False, "function has no return statement"
    return ok, '; '.join(detail) if detail else f"every return of {fi.qualname} is preceded by .{method}() on the returned variable"
