"""Shared extraction of facts from interpreted builders: stencil rows, face coefficients, index
classes, ghost-size substitutions."""
from __future__ import annotations
from .alg import Rat, Poly, atom_id, atom_key, is_zero, reindex, map_atoms, fmt_rat
from .srcmodel import SourceModel, AnalysisError, MESH_CLASSES, dispatch_table, branch_callee
from .arrays import AbstractRaise, R, ZERO, ONE, snap, Box
from .model import World, AX, DIM
from .interp import ASparse, OpaqueFn

MATRIX_TERMS = {
    'diffusion': ('diffusion', 'diffusionTerm'),
    'convection': ('advection', 'convectionTerm'),
    'upwind': ('advection', 'convectionUpwindTerm'),
}
VECTOR_TERMS = {
    'tvd': ('advection', 'convectionTVDupwindRHSTerm'),
    'divergence': ('calculus', 'divergenceTerm'),
}


SMALL_SIZES = {1: [(1,), (2,), (3,), (4,), (5,), (6,), (7,)],
               2: [(1, 1), (1, 4), (4, 1), (2, 3), (3, 2), (7, 2), (2, 7)],
               3: [(1, 1, 1), (2, 1, 3), (1, 3, 2), (3, 2, 1), (2, 2, 2), (7, 1, 1), (1, 7, 1), (1, 1, 7)]}

QUICK_SMALL_SIZES = {1: [(1,), (2,), (3,)], 2: [(1, 2), (2, 1)], 3: [(1, 2, 1)]}


_IMPL_CACHE = {}


def implementer(sm, module, dispatcher, meshcls):
    """(function name, projection index, call node, branch line) chosen by the dispatcher for a class.  Read off the
    if/elif chain of type tests when the dispatcher is written that way; for any other form (dictionary dispatch, helper
    functions, ...) the dispatcher is *interpreted* for that class and the first function of its module it calls is taken.
    The name is used for labelling constructs and locations only - the checks always call the public dispatcher."""
    key = (sm.__dict__.setdefault('_dg', sm.digest()), module, dispatcher, meshcls)
    if key in _IMPL_CACHE:
        return _IMPL_CACHE[key]
    fi = sm.func(module, dispatcher)
    try:
        tab = dispatch_table(sm, fi)
        body, line = tab[meshcls]
        fname, call, proj = branch_callee(body)
        if fname is not None and module in sm.modules and fname not in sm.module(module).functions:
            raise AnalysisError('branch does not call a function of the module')
        res = (fname, proj, call, line)
    except AnalysisError:
        res = _implementer_dynamic(sm, module, dispatcher, meshcls)
    _IMPL_CACHE[key] = res
    return res


def dispatch_probe(sm, module, dispatcher, meshcls):
    """interpret the public dispatcher for one grid class with symbolic arguments: (exception name or None, call trace)"""
    from .arrays import Arr
    w = World(sm, meshcls)
    if dispatcher == 'cellValuesWithBoundaries':
        interior = Box(Arr(tuple(w.N), lambda idx: Rat.atom(('phi',) + tuple(i + 1 for i in idx))))
        args = (interior, w.boundary_conditions())
    elif dispatcher == 'boundaryConditionsTerm':
        args = (w.boundary_conditions(),)
    elif dispatcher == 'convectionTVDupwindRHSTerm':
        args = (w.face_variable('u'), w.cell_variable('phi'), OpaqueFn('FL'))
    elif dispatcher == 'gradientTerm':
        args = (w.cell_variable('phi'),)
    else:
        args = (w.face_variable('c'),)
    w.interp.trace.clear()
    exc = None
    try:
        w.call(module, dispatcher, *args)
    except AbstractRaise as e:
        exc = e.exc
    return exc, list(w.interp.trace)


def _implementer_dynamic(sm, module, dispatcher, meshcls):
    fi = sm.func(module, dispatcher)
    _exc, tr = dispatch_probe(sm, module, dispatcher, meshcls)
    me = f"{module}.{dispatcher}"
    after = tr[tr.index(me) + 1:] if me in tr else tr
    mod = sm.module(module)
    for q in after:
        m_, _, n_ = q.partition('.')
        if m_ == module and n_ in mod.functions and n_ != dispatcher and not n_.startswith('_'):
            return (n_, None, None, fi.node.lineno)
    return (None, None, None, fi.node.lineno)


def _unused_implementer_dynamic(sm, module, dispatcher, meshcls):
    from .arrays import Arr
    w = World(sm, meshcls)
    fi = sm.func(module, dispatcher)
    if dispatcher == 'cellValuesWithBoundaries':
        interior = Box(Arr(tuple(w.N), lambda idx: Rat.atom(('phi',) + tuple(i + 1 for i in idx))))
        args = (interior, w.boundary_conditions())
    elif dispatcher == 'boundaryConditionsTerm':
        args = (w.boundary_conditions(),)
    elif dispatcher == 'convectionTVDupwindRHSTerm':
        args = (w.face_variable('u'), w.cell_variable('phi'), OpaqueFn('FL'))
    elif dispatcher == 'gradientTerm':
        args = (w.cell_variable('phi'),)
    else:
        args = (w.face_variable('c'),)
    w.interp.trace.clear()
    try:
        w.call(module, dispatcher, *args)
    except AbstractRaise:
        pass
    tr = list(w.interp.trace)
    me = f"{module}.{dispatcher}"
    after = tr[tr.index(me) + 1:] if me in tr else tr
    mod = sm.module(module)
    for q in after:
        m_, _, n_ = q.partition('.')
        if m_ == module and n_ in mod.functions and n_ != dispatcher and not n_.startswith('_'):
            return (n_, None, None, fi.node.lineno)
    return (None, None, None, fi.node.lineno)


def face_classes(w: World, a, tier):
    """face indices 0..N along axis a (face i lies between cells i and i+1, full coordinates)"""
    n = w.N[a]
    if not w.symbolic:
        return [Rat.const(i) for i in range(0, n.as_int() + 1)]
    if tier == 'quick':
        return [ZERO, ONE, w.t[a], n - 1, n]
    return [ZERO, ONE, Rat.const(2), w.t[a], n - 2, n - 1, n]


def transverse_classes(w: World, b, tier):
    n = w.N[b]
    if not w.symbolic:
        return [Rat.const(i) for i in range(1, n.as_int() + 1)]
    if tier == 'quick':
        return [w.t[b]]
    return [ONE, w.t[b], n]


def cell_classes(w: World, tier, mode='product'):
    """interior cells to examine: tuples of full coordinates"""
    import itertools
    per_axis = [w.interior_classes(k, tier) for k in range(w.dim)]
    if not w.symbolic or mode == 'product':
        return [tuple(p) for p in itertools.product(*per_axis)]
    # one axis varied at a time, the others generic
    out = []
    seen = set()
    for a in range(w.dim):
        for v in per_axis[a]:
            P = tuple(v if k == a else w.t[k] for k in range(w.dim))
            key = tuple(str(x) for x in P)
            if key not in seen:
                seen.add(key)
                out.append(P)
    return out


def is_interior(w: World, P):
    for k, p in enumerate(P):
        if not (w.ctx.le(ONE, p) and w.ctx.le(p, w.N[k])):
            return False
    return True


def face_atom_key(name, a, i, T, w):
    """atom key of face-variable component a at face index i with transverse cell coordinates T
    (T has dim entries; entry a ignored)"""
    idx = tuple(i if k == a else T[k] - 1 for k in range(w.dim))
    return (name, AX[a]) + idx


def cstr(P):
    return '(' + ','.join(str(p) for p in P) + ')'


def row_by_col(w: World, row):
    """sum the entries of a row per column: {colkey: (col tuple, Rat)}"""
    out = {}
    for e in row:
        k = tuple(str(c) for c in e['col'])
        if k in out:
            out[k] = (out[k][0], out[k][1] + e['val'])
        else:
            out[k] = (e['col'], e['val'])
    return out


def lin_coeff(val: Rat, aid):
    """coefficient of atom aid in val (must be linear, atom not in a denominator)"""
    if aid not in val.atoms():
        return ZERO
    c, _rest = val.coeff_of(aid)
    return c


def ghost_size_map(w: World):
    """mesh fact used when an interior formula is transplanted to a boundary face: the ghost cell has
    the size of the adjacent cell, i.e.  f[-1] = 2 f[0] - f[1]  and  f[N+1] = 2 f[N] - f[N-1].
    (checked against mesh.py by C10.G1)"""
    def fn(key):
        if isinstance(key, tuple) and key and key[0] == 'f':
            ax = key[1]
            k = AX.index(ax)
            if k >= w.dim:
                return None
            i = key[2]
            n = w.N[k]
            if (i + 1).is_zero():
                return 2 * Rat.atom(('f', ax, ZERO)) - Rat.atom(('f', ax, ONE))
            if (i - n - 1).is_zero():
                return 2 * Rat.atom(('f', ax, n)) - Rat.atom(('f', ax, n - 1))
        return None
    return fn


def transplant(w: World, expr: Rat, a, value):
    """substitute the generic position symbol of axis a by `value` inside every atom index, then apply
    the ghost-size facts"""
    if not w.symbolic:
        raise AnalysisError("transplant needs a symbolic world")
    tid = atom_id(('t', AX[a]))
    r = reindex(expr, {tid: R(value)})
    return map_atoms(r, ghost_size_map(w))


def offsets_of(w, P, col):
    """col - P as constants if possible"""
    out = []
    for c, p in zip(col, P):
        d = c - p
        if d.is_const():
            out.append(int(d.const_value()))
        else:
            return None
    return tuple(out)
