"""Abstract interpreter for the Python/numpy subset used by PyFVTool's builders.

Walks the syntax tree of /repo's functions (never imports or runs them).  Python-level control flow
(class dispatch, len(args), periodic flags) is evaluated concretely from the *configuration* the
caller chose; numeric data stay symbolic (`Rat` over atoms) and arrays are `Arr` closures with
symbolic shapes.  Anything outside the declared subset raises AnalysisError (fail closed).
"""
from __future__ import annotations
import ast
from fractions import Fraction
from .alg import Rat, Poly, atom_id, remember
from .srcmodel import SourceModel, AnalysisError, FuncInfo, ClassInfo
from . import arrays as A
from .arrays import (Ctx, Arr, Box, View, Sl, NEWAXIS, ELLIPSIS, AbstractRaise, snap, is_arraylike,
                     R, ZERO, ONE)


# ----------------------------------------------------------------------------------------------
# Python-level abstract values
# ----------------------------------------------------------------------------------------------
class AObj:
    _n = 0

    def __init__(self, cls, attrs=None):
        self.cls = cls
        self.attrs = attrs if attrs is not None else {}
        AObj._n += 1
        self.id = AObj._n

    def __repr__(self):
        return f"<{self.cls}#{self.id}>"


class AForeign:
    """an object that is *not* an ndarray but quacks partly like one (a numpy scalar, a memoryview, ...): used to probe type
    guards.  `kind` is its type name, `has` the attribute names it answers to; np.asarray / TrackedArray of it give a 0-d
    array of an opaque value (what numpy does for a numpy scalar; for the other kinds the point is only that no exception
    is raised)."""
    def __init__(self, kind, has):
        self.kind = kind
        self.has = set(has)

    def __repr__(self):
        return f"<foreign {self.kind}>"


NUMPY_SCALAR_ATTRS = ('shape', 'ndim', 'size', 'dtype', 'item', 'real', 'imag', 'T', 'astype', '__neg__', 'itemsize', 'nbytes', 'ravel', 'flatten',
                      'reshape', 'copy', 'tolist', 'sum', 'max', 'min', '__len__x', '__array__', '__float__')
MEMORYVIEW_ATTRS = ('shape', 'ndim', 'itemsize', 'format', 'nbytes', 'strides', 'tolist', 'obj', 'readonly', '__len__', '__getitem__')


class AClassRef:
    def __init__(self, name):
        self.name = name

    def __repr__(self):
        return f"<class {self.name}>"

    def __eq__(self, o):
        return isinstance(o, AClassRef) and o.name == self.name

    def __hash__(self):
        return hash(('cls', self.name))


class ATypeRef(AClassRef):
    pass


class AFuncRef:
    def __init__(self, fi: FuncInfo):
        self.fi = fi

    def __repr__(self):
        return f"<func {self.fi.qualname}>"


class ABound:
    def __init__(self, obj, fi: FuncInfo):
        self.obj = obj
        self.fi = fi


class ASuper:
    def __init__(self, obj, after_cls):
        self.obj = obj
        self.after = after_cls


class NPModule:
    def __repr__(self):
        return "<numpy>"


class NPFunc:
    def __init__(self, name):
        self.name = name

    def __repr__(self):
        return f"<np.{self.name}>"


class Builtin:
    def __init__(self, name):
        self.name = name

    def __repr__(self):
        return f"<builtin {self.name}>"


class OpaqueFn:
    """a user callable (flux limiter) applied elementwise: result atoms ('fn', name, argkey)"""

    def __init__(self, name):
        self.name = name


class PyCallable:
    """analysis-side callable handed to the analysed code (e.g. a recording solver)"""

    def __init__(self, fn, name='callable'):
        self.fn = fn
        self.name = name


class ArrMethod:
    def __init__(self, obj, name):
        self.obj = obj
        self.name = name


class ASparse:
    """entries: list of dict(rows=Arr, cols=Arr, vals=Arr, block=lineno, sign=+1/-1)"""

    def __init__(self, entries, shape, issues=None):
        self.entries = entries
        self.shape = shape
        self.issues = issues or []

    def __repr__(self):
        return f"<ASparse {len(self.entries)} segments, {len(self.issues)} issues>"


class AStr(str):
    pass


class _Return(Exception):
    def __init__(self, value):
        self.value = value


class _Continue(Exception):
    pass


class _Break(Exception):
    pass


class NeedDecision(Exception):
    """a branch on a symbolic scalar was met while the list of forced decisions is exhausted"""


class JobNeedDecision(BaseException):
    """job-level path splitting (see JobFork); a BaseException so that no `except Exception` in a job swallows it"""


class JobFork:
    """Path splitting for a whole job on *tolerance predicates* (np.allclose / np.isclose / math.isclose used as a branch
    condition).  Such a predicate is data dependent and neither outcome implies an exact relation between its operands, so
    both outcomes are feasible for the inputs the properties quantify over and the obligations must hold on both paths; the
    job is re-run once per decision sequence (check._run_job).  One decision per (location, condition): the same call site
    is decided the same way during a run."""
    def __init__(self, forced=()):
        self.forced = list(forced)
        self.decided = {}
        self.decided_atoms = set()      # keys of the predicate atoms a branch was decided on (C17.H6)
        self.log = []

    def decide(self, cond, where):
        key = (where, str(cond))
        if key in self.decided:
            return self.decided[key]
        k = len(self.log)
        if k >= len(self.forced):
            raise JobNeedDecision(where)
        d = self.forced[k]
        self.decided[key] = d
        self.log.append((where, d))
        # a quantified predicate over symbolic data pins the data on one of its outcomes: np.any(x) false (every element is
        # zero / false) and np.all(x) true.  On such a path an obligation about *values* may fail only because that equality is
        # not used by the algebra, so it is not reported as a violation there (check._run_job); rules about effects and
        # aliasing do not depend on values and stay definite.  The other outcome is the generic case.
        pa = pred_atom(cond)
        if pa:
            self.decided_atoms.add(pa[0])
        if pa and pa[0][0] == 'qpred':
            truth = d if pa[1] else (not d)
            if (pa[0][1] == 'any' and not truth) or (pa[0][1] == 'all' and truth):
                self.pinned = True
        return d

    pinned = False


JOB_FORK = None


def pred_atom(c):
    """(key, positive) if c is a bare fork-predicate atom - a tolerance predicate ('tolpred', ..) or a quantified predicate over
    symbolic data ('qpred', 'any'|'all', ..) - or its negation 1 - atom; else None"""
    from .alg import Rat as _R, atoms_with_head
    if not isinstance(c, _R):
        return None
    for cand, positive in ((c, True), (1 - c, False)):
        for head in ('tolpred', 'qpred'):
            ks = atoms_with_head(cand, head)
            if len(ks) == 1 and len(cand.atoms()) == 1 and (cand - _R.atom(ks[0][1])).is_zero():
                return ks[0][1], positive
    return None


def is_tolpred(c):
    return pred_atom(c) is not None or compound_pred(c) is not None


def compound_pred(c):
    """the fork-predicate atoms of c when c is built from such atoms only (and / or / not of tolerance or quantified
    predicates, e.g. all(np.allclose(h, h[0]) for h in sizes)); else None"""
    from .alg import Rat as _R, _ATOM_KEY
    if not isinstance(c, _R) or c.is_const():
        return None
    try:
        ats = list(c.atoms())
    except Exception:
        return None
    keys = []
    for a in ats:
        k = _ATOM_KEY[a]
        if not (isinstance(k, tuple) and k and k[0] in ('tolpred', 'qpred')):
            return None
        keys.append((a, k))
    return keys or None


class _CompoundFork:
    """decides a compound predicate atom by atom through the job fork, then evaluates it"""
    def __init__(self, fk):
        self.fk = fk

    def decide(self, cond, where):
        from .alg import Rat as _R
        if pred_atom(cond) is not None:
            return self.fk.decide(cond, where)
        mp = {}
        for a, k in sorted(compound_pred(cond), key=lambda t: str(t[1])):
            d = self.fk.decide(_R.atom(k), f"{where} [{k[1]} at {k[2] if len(k) > 2 else ''}]")
            mp[a] = _R.const(1 if d else 0)
        v = cond.subs(mp)
        if not v.is_const():
            raise AnalysisError(f"compound predicate did not reduce to a constant at {where}")
        return v.const_value() != 0


class Fork:
    """Path splitting for branches on symbolic *scalar* conditions (operator methods given a symbolic scalar operand).
    The driver re-interprets the function once per decision sequence (explore_paths); every path carries its path
    condition in .log as (condition Rat, decision, location)."""
    def __init__(self, forced=()):
        self.forced = list(forced)
        self.log = []

    def decide(self, cond, where):
        k = len(self.log)
        if k >= len(self.forced):
            raise NeedDecision(where)
        d = self.forced[k]
        self.log.append((cond, d, where))
        return d


def explore_paths(run, max_paths=8):
    """run(fork) -> result, interpreted once per feasible decision sequence; returns [(fork.log, result)]"""
    out = []
    stack = [[]]
    n = 0
    while stack:
        forced = stack.pop()
        n += 1
        if n > 4 * max_paths or len(out) > max_paths:
            raise AnalysisError("too many paths through branches on symbolic scalars")
        fk = Fork(forced)
        try:
            res = run(fk)
        except NeedDecision:
            stack.append(forced + [False])
            stack.append(forced + [True])
            continue
        out.append((fk.log, res))
    return out


NP = NPModule()
NDARRAY = ATypeRef('ndarray')
NOT_GIVEN = object()

_BUILTINS = {'len', 'type', 'issubclass', 'isinstance', 'print', 'bool', 'int', 'float', 'abs', 'min', 'max',
             'range', 'hasattr', 'getattr', 'super', 'vars', 'str', 'tuple', 'list', 'sum', 'enumerate', 'zip', 'Exception', 'id', 'dict', 'set', 'slice', 'all', 'any', 'setattr',
             'TypeError', 'ValueError', 'AttributeError', 'NotImplementedError', 'IndexError'}
_EXC_NAMES = {'Exception', 'TypeError', 'ValueError', 'AttributeError', 'NotImplementedError', 'IndexError',
              'KeyError', 'ZeroDivisionError', 'RuntimeError'}


_LOCALS_CACHE = {}


def _assigned_names(node):
    k = id(node)
    r = _LOCALS_CACHE.get(k)
    if r is None:
        r = set()
        for n in ast.walk(node):
            if isinstance(n, ast.Name) and isinstance(n.ctx, ast.Store):
                r.add(n.id)
        _LOCALS_CACHE[k] = r
    return r


class Frame:
    def __init__(self, module, fi=None, self_obj=None):
        self.module = module
        self.fi = fi
        self.vars = {}
        self.self_obj = self_obj
        self.capture = None      # loop-map capture dict or None
        self.locals = _assigned_names(fi.node) if fi is not None else set()


class Interp:
    def __init__(self, sm: SourceModel, ctx: Ctx):
        self.sm = sm
        self.ctx = ctx
        self.call_depth = 0
        self.trace = []            # (qualname) of interpreted functions, for evidence
        self.funcs_seen = set()
        self.opaque_summaries = {}   # (module, fname) -> python callable(interp, args, kwargs)
        self.events = ctx.events
        self.cur_line = None
        self.cur_file = None
        self.oplog = []              # ('call', qualname, objid) / ('read'|'write', attr, objid)
        self.watch_attrs = {'_BCsTerm', '_value', 'BCs'}
        self.recorded_solves = []
        self.fork = None             # Fork or None: path splitting on symbolic scalar branch conditions

    # ------------------------------------------------------------------------------------------
    # calling repo functions
    # ------------------------------------------------------------------------------------------
    def call_function(self, fi: FuncInfo, args, kwargs=None, self_obj=None):
        kwargs = kwargs or {}
        key = (fi.module, fi.qualname)
        if key in self.opaque_summaries:
            return self.opaque_summaries[key](self, args, kwargs)
        self.funcs_seen.add(f"{fi.module}.{fi.qualname}")
        self.trace.append(f"{fi.module}.{fi.qualname}")
        self.oplog.append(('call', fi.qualname, self_obj.id if isinstance(self_obj, AObj) else None))
        self.call_depth += 1
        if self.call_depth > 40:
            raise AnalysisError("call depth exceeded (recursion?)")
        fr = Frame(fi.module, fi, self_obj)
        self._bind(fr, fi, args, kwargs)
        saved = (self.cur_line, self.cur_file)
        try:
            self.exec_block(fr, fi.node.body)
            return None
        except _Return as r:
            return r.value
        finally:
            self.call_depth -= 1
            self.cur_line, self.cur_file = saved

    def _default_value(self, fi, node):
        """a default argument is evaluated once, when the function is defined: a mutable default (`memo={}`, `cache=[]`) is one
        object shared by all calls that use it"""
        st = self.__dict__.setdefault('_default_state', {})
        k = id(node)
        if k not in st:
            st[k] = self.eval(Frame(fi.module), node)
        return st[k]

    def _bind(self, fr, fi, args, kwargs):
        a = fi.node.args
        params = [p.arg for p in a.posonlyargs + a.args]
        defaults = a.defaults
        nreq = len(params) - len(defaults)
        args = list(args)
        kwargs = dict(kwargs)
        for i, p in enumerate(params):
            if i < len(args):
                fr.vars[p] = args[i]
            elif p in kwargs:
                fr.vars[p] = kwargs.pop(p)
            elif i >= nreq:
                fr.vars[p] = self._default_value(fi, defaults[i - nreq])
            else:
                raise AbstractRaise('TypeError', f"{fi.qualname}() missing required positional argument: '{p}'")
        extra = args[len(params):]
        if a.vararg:
            fr.vars[a.vararg.arg] = tuple(extra)
        elif extra:
            raise AbstractRaise('TypeError', f"{fi.qualname}() takes {len(params)} positional arguments but {len(args)} were given")
        for p, d in zip(a.kwonlyargs, a.kw_defaults):
            if p.arg in kwargs:
                fr.vars[p.arg] = kwargs.pop(p.arg)
            elif d is not None:
                fr.vars[p.arg] = self._default_value(fi, d)
            else:
                raise AbstractRaise('TypeError', f"missing keyword-only argument {p.arg}")
        if kwargs:
            if a.kwarg:
                fr.vars[a.kwarg.arg] = kwargs
            else:
                raise AbstractRaise('TypeError', f"{fi.qualname}() got an unexpected keyword argument '{next(iter(kwargs))}'")

    def run_snippet(self, src, env, module='pdesolver'):
        """interpret a few statements of *user-level* code (an edit history: assignments, augmented assignments, method
        calls) with the given variable bindings; returns the frame's variables afterwards"""
        tree = ast.parse(src)
        fr = Frame(module)
        fr.vars.update(env)
        self.exec_block(fr, tree.body)
        return fr.vars

    def instantiate(self, clsname, args, kwargs=None):
        kwargs = kwargs or {}
        if clsname == 'TrackedArray':
            # the class's own __new__ is interpreted (argument checks it may do included); `np.asarray(x).view(cls)` inside it is
            # the one library step, modelled by tracked_view below
            new = self.sm.find_method('TrackedArray', '__new__')
            if new is None:
                raise AnalysisError("TrackedArray has no __new__: its construction is not modelled")
            r = self.call_function(new, [AClassRef('TrackedArray')] + list(args), kwargs)
            if not (isinstance(r, Box) and r.attrs.get('tracked')):
                raise AnalysisError("TrackedArray.__new__ does not return a TrackedArray view of its input: not modelled")
            return r
        if clsname == 'SignedTuple':
            raise AnalysisError("SignedTuple is not modelled")
        obj = AObj(clsname)
        init = self.sm.find_method(clsname, '__init__')
        if init is not None:
            self.call_function(init, [obj] + list(args), kwargs, self_obj=obj)
        elif args or kwargs:
            raise AbstractRaise('TypeError', f"{clsname}() takes no arguments")
        return obj

    # ------------------------------------------------------------------------------------------
    # statements
    # ------------------------------------------------------------------------------------------
    def exec_block(self, fr, body):
        for st in body:
            self.exec_stmt(fr, st)

    def exec_stmt(self, fr, st):
        self.cur_line = getattr(st, 'lineno', self.cur_line)
        self.cur_file = fr.module
        t = type(st)
        if t is ast.Expr:
            if isinstance(st.value, ast.Constant):
                return
            self.eval(fr, st.value)
        elif t is ast.Assign:
            v = self.eval(fr, st.value)
            for tgt in st.targets:
                self.assign(fr, tgt, v, st.lineno)
        elif t is ast.AnnAssign:
            if st.value is not None:
                self.assign(fr, st.target, self.eval(fr, st.value), st.lineno)
        elif t is ast.AugAssign:
            cur = self.eval(fr, _load(st.target))
            rhs = self.eval(fr, st.value)
            if isinstance(st.target, ast.Subscript) and not isinstance(cur, View):
                # A[key] op= v  with an advanced (list / array / boolean) key: A[key] = A[key] op v - the indexed value is
                # a copy, the store goes through __setitem__ (repeated indices: the last one wins, as in numpy)
                val = self.binop(st.op, cur, rhs, st.lineno)
                self.assign(fr, st.target, val, st.lineno)
                return
            if isinstance(cur, (Box, View)) and not isinstance(cur, ASparse):
                # ndarray in-place operator: writes into the existing storage
                val = self.binop(st.op, cur, rhs, st.lineno)
                if is_arraylike(val) and snap(val).ndim > snap(cur).ndim:
                    raise AbstractRaise('ValueError', f"non-broadcastable output operand with shape {tuple(map(str, snap(cur).shape))} "
                                                      f"doesn't match the broadcast shape {tuple(map(str, snap(val).shape))}", st.lineno)
                if isinstance(cur, Box):
                    self._note_write(cur, st.lineno)
                    cur.cur = snap(val)
                    if A.is_flatvec(val):
                        cur.log = []
                    else:
                        cur.log.append((('inplace',), snap(val), st.lineno))
                    if isinstance(st.target, ast.Attribute):
                        # obj.attr op= v  is  obj.attr = obj.attr.__iop__(v): the in-place operator itself bypasses
                        # __setitem__ (no dirty flag), then the very same array object is stored back through the attribute -
                        # for a property that runs the setter
                        self.assign(fr, st.target, cur, st.lineno)
                else:
                    self.store_subscript(cur.base, cur.key, val, st.lineno)
                    if isinstance(st.target, ast.Attribute):
                        self.assign(fr, st.target, cur, st.lineno)
                return
            if isinstance(cur, list) and isinstance(st.op, ast.Add):
                # list += iterable extends the very list object in place (list.__iadd__), unlike  lst = lst + other
                tag = getattr(self, 'frozen_lists', {}).get(id(cur))
                if tag:
                    self.events.append(('input-mutated', tag, self.cur_file, st.lineno))
                cur.extend(list(rhs) if isinstance(rhs, (list, tuple)) else [rhs])
                if not isinstance(st.target, ast.Name):
                    self.assign(fr, st.target, cur, st.lineno)
                return
            val = self.binop(st.op, cur, rhs, st.lineno)
            self.assign(fr, st.target, val, st.lineno)
        elif t is ast.If:
            c = self.eval(fr, st.test)
            c = self.truth(c, st)
            if c is True:
                self.exec_block(fr, st.body)
            elif c is False:
                self.exec_block(fr, st.orelse)
            else:
                self.exec_guarded_if(fr, st, c)
        elif t is ast.Return:
            raise _Return(self.eval(fr, st.value) if st.value is not None else None)
        elif t is ast.Raise:
            self.do_raise(fr, st)
        elif t is ast.For:
            self.exec_for(fr, st)
        elif t is ast.Pass:
            return
        elif t is ast.Continue:
            if fr.capture is not None:
                raise AnalysisError("continue inside a symbolic map-loop")
            raise _Continue()
        elif t is ast.Break:
            if fr.capture is not None:
                raise AnalysisError("break inside a symbolic map-loop")
            raise _Break()
        elif t in (ast.Import, ast.ImportFrom):
            return
        elif t is ast.FunctionDef:
            fr.vars[st.name] = AFuncRef(FuncInfo(fr.module, st.name, st))
            fr.vars[st.name].closure = fr
        elif t is ast.Assert:
            return
        elif t is ast.Try:
            self.exec_try(fr, st)
        elif t is ast.With:
            for item in st.items:
                ce = item.context_expr
                if not (isinstance(ce, ast.Call) and isinstance(ce.func, ast.Attribute) and ce.func.attr == 'errstate'):
                    raise AnalysisError(f"unsupported context manager at {fr.module}.py:{st.lineno}")
            self.exec_block(fr, st.body)
        else:
            raise AnalysisError(f"unsupported statement {t.__name__} at {fr.module}.py:{st.lineno}")

    def exec_try(self, fr, st):
        """try/except over abstract raises: a handler matches by the exception class name (bare `except`, `except
        Exception` and tuples included); `else` / `finally` as in Python"""
        try:
            self.exec_block(fr, st.body)
        except AbstractRaise as e:
            for h in st.handlers:
                names = []
                if h.type is None:
                    names = None
                elif isinstance(h.type, ast.Tuple):
                    names = [x.id for x in h.type.elts if isinstance(x, ast.Name)]
                elif isinstance(h.type, ast.Name):
                    names = [h.type.id]
                else:
                    raise AnalysisError(f"unsupported except clause at {fr.module}.py:{h.lineno}")
                if names is None or e.exc in names or 'Exception' in names or 'BaseException' in names:
                    if h.name:
                        fr.vars[h.name] = AStr(f"<{e.exc}>")
                    try:
                        self.exec_block(fr, h.body)
                    finally:
                        self.exec_block(fr, st.finalbody)
                    return
            self.exec_block(fr, st.finalbody)
            raise
        except _Return:
            self.exec_block(fr, st.finalbody)
            raise
        self.exec_block(fr, st.orelse)
        self.exec_block(fr, st.finalbody)

    def _comp_items(self, fr, e):
        """values of a list comprehension / generator expression over concrete iterables (single or nested `for`, `if`
        filters with decidable conditions); the loop variables live in the enclosing frame, as the repo never relies on
        comprehension scoping"""
        out = []

        def rec(k):
            if k == len(e.generators):
                out.append(self.eval(fr, e.elt))
                return
            g = e.generators[k]
            it = self.eval(fr, g.iter)
            if is_arraylike(it):
                a = snap(it)
                if a.ndim != 1 or not a.shape[0].is_const():
                    raise AnalysisError("comprehension over an array of symbolic length")
                it = [a.at((Rat.const(i),)) for i in range(a.shape[0].as_int())]
            if isinstance(it, dict):
                it = list(it)
            if not isinstance(it, (tuple, list)):
                raise AnalysisError(f"comprehension over {type(it).__name__}")
            for v in it:
                self.assign(fr, g.target, v, e.lineno)
                ok = True
                for cond in g.ifs:
                    c = self.truth(self.eval(fr, cond))
                    if not isinstance(c, bool):
                        raise AnalysisError("comprehension filter on a symbolic value")
                    ok = ok and c
                if ok:
                    rec(k + 1)
        rec(0)
        return out

    def ev_ListComp(self, fr, e):
        return self._comp_items(fr, e)

    def ev_GeneratorExp(self, fr, e):
        return tuple(self._comp_items(fr, e))

    def do_raise(self, fr, st):
        exc = st.exc
        name = 'Exception'
        msg = ''
        if isinstance(exc, ast.Call):
            if isinstance(exc.func, ast.Name):
                name = exc.func.id
            if exc.args:
                try:
                    msg = str(ast.literal_eval(exc.args[0]))
                except Exception:
                    msg = ast.unparse(exc.args[0])
        elif isinstance(exc, ast.Name):
            name = exc.id
        raise AbstractRaise(name, msg, st.lineno)

    def truth(self, c, st=None):
        if isinstance(c, bool):
            return c
        if c is None:
            return False
        if isinstance(c, Rat):
            if c.is_const():
                return c.const_value() != 0
            return c      # symbolic guard
        if isinstance(c, (tuple, list, dict, str)):
            return len(c) > 0
        if is_arraylike(c):
            a = snap(c)
            if a.ndim == 0:
                return self.truth(a.at(()))
            raise AbstractRaise('ValueError', "The truth value of an array with more than one element is ambiguous")
        if isinstance(c, (AObj, AClassRef, AFuncRef)):
            return True
        raise AnalysisError(f"truth value of {c!r}")

    def exec_guarded_if(self, fr, st, c):
        # `if <symbolic>: warn(...)`  -> branch only warns: skip, record
        if _only_warns(st.body) and not st.orelse:
            self.events.append(('skipped-warn-branch', fr.module, st.lineno, ast.unparse(st.test)))
            return
        if fr.capture is None:
            fk = self.fork if self.fork is not None else (_CompoundFork(JOB_FORK) if (JOB_FORK is not None and is_tolpred(c)) else None)
            if fk is not None:
                d = fk.decide(c, f"{fr.module}.py:{st.lineno}: {ast.unparse(st.test)}")
                self.exec_block(fr, st.body if d else st.orelse)
                return
            raise AnalysisError(f"branch on a symbolic value at {fr.module}.py:{st.lineno}: {ast.unparse(st.test)}")
        outer = fr.capture
        cap_t = dict(outer)
        fr.capture = cap_t
        self.exec_block(fr, st.body)
        cap_e = dict(outer)
        fr.capture = cap_e
        self.exec_block(fr, st.orelse)
        fr.capture = outer
        for k in set(cap_t) | set(cap_e):
            if k not in cap_t or k not in cap_e:
                raise AnalysisError(f"loop-map: array assigned on one branch only at {fr.module}.py:{st.lineno}")
            outer[k] = c * cap_t[k] + (1 - c) * cap_e[k]

    def exec_for(self, fr, st):
        if st.orelse:
            raise AnalysisError("for-else")
        it = self.eval(fr, st.iter)

        def body_once():
            """one pass of a loop over a concrete python sequence; True = break"""
            try:
                self.exec_block(fr, st.body)
            except _Continue:
                return False
            except _Break:
                return True
            return False
        if isinstance(it, (tuple, list)):
            k = 0
            while k < len(it):               # by position: items appended to a list during the loop are visited too, as in python
                self.assign(fr, st.target, it[k], st.lineno)
                k += 1
                if k > 10000:
                    raise AnalysisError("loop over a list that keeps growing")
                if body_once():
                    break
            return
        if isinstance(it, dict):
            for v in list(it):
                self.assign(fr, st.target, v, st.lineno)
                if body_once():
                    break
            return
        if is_arraylike(it):
            a = snap(it)
            if a.ndim == 1 and a.affine is not None:
                n = a.shape[0]
                lo = a.affine[1]
                if n.is_const():
                    for k in range(n.as_int()):
                        self.assign(fr, st.target, lo + k, st.lineno)
                        if body_once():
                            break
                    return
                return self.exec_map_loop(fr, st, lo, n)
        raise AnalysisError(f"unsupported loop iterable at {fr.module}.py:{st.lineno}")

    def exec_map_loop(self, fr, st, lo, n):
        """for i in arange(lo, lo+n): arr[i] = f(i)   with symbolic n."""
        if not isinstance(st.target, ast.Name):
            raise AnalysisError("loop-map target")
        ivar = st.target.id
        targets = []
        for node in ast.walk(ast.Module(body=st.body, type_ignores=[])):
            if isinstance(node, (ast.Assign, ast.AugAssign)):
                tgts = node.targets if isinstance(node, ast.Assign) else [node.target]
                for tg in tgts:
                    if isinstance(tg, ast.Subscript) and isinstance(tg.value, ast.Name) and \
                            isinstance(tg.slice, ast.Name) and tg.slice.id == ivar:
                        if tg.value.id not in targets:
                            targets.append(tg.value.id)
                    else:
                        raise AnalysisError(f"loop-map: unsupported assignment target {ast.unparse(tg)} at {fr.module}.py:{node.lineno}")
            elif isinstance(node, (ast.For, ast.While, ast.Return, ast.Break, ast.Continue)):
                raise AnalysisError("loop-map: nested control flow")
        boxes = {}
        for nm in targets:
            b = fr.vars.get(nm)
            if not isinstance(b, Box):
                raise AnalysisError(f"loop-map target {nm} is not an array variable")
            boxes[nm] = b
        olds = {nm: b.cur for nm, b in boxes.items()}
        interp = self
        memo = {}

        def run_at(i):
            k = i.key()
            if k in memo:
                return memo[k]
            sub = Frame(fr.module, fr.fi, fr.self_obj)
            sub.vars = dict(fr.vars)
            sub.vars[ivar] = i
            sub.capture = {}
            sub.loopvar = (ivar, i)
            sub.loop_olds = olds
            interp.exec_block(sub, st.body)
            memo[k] = sub.capture
            return sub.capture
        for nm, b in boxes.items():
            old = olds[nm]

            def fn(idx, nm=nm, old=old):
                i = idx[0]
                if self.ctx.le(lo, i) and self.ctx.lt(i, lo + n):
                    cap = run_at(i)
                    if nm in cap:
                        return cap[nm]
                return old.at(idx)
            if old.ndim != 1:
                raise AnalysisError("loop-map on nd array")
            b.cur = Arr(old.shape, fn, 'real', origin=st.lineno)
            b.log.append((('loopmap', lo, n), None, st.lineno))

    # ------------------------------------------------------------------------------------------
    # assignment
    # ------------------------------------------------------------------------------------------
    def assign(self, fr, tgt, v, lineno):
        t = type(tgt)
        if t is ast.Name:
            fr.vars[tgt.id] = v
        elif t in (ast.Tuple, ast.List):
            vals = self.unpack(v, len(tgt.elts))
            for e, x in zip(tgt.elts, vals):
                self.assign(fr, e, x, lineno)
        elif t is ast.Attribute:
            obj = self.eval(fr, tgt.value)
            self.set_attr(obj, tgt.attr, v, lineno)
        elif t is ast.Subscript:
            base = self.eval(fr, tgt.value)
            if fr.capture is not None and isinstance(tgt.value, ast.Name) and isinstance(tgt.slice, ast.Name) \
                    and getattr(fr, 'loopvar', (None,))[0] == tgt.slice.id:
                val = v
                if is_arraylike(val):
                    val = snap(val).at(())
                fr.capture[tgt.value.id] = R(val)
                return
            key = self.eval_key(fr, tgt.slice)
            self.store_subscript(base, key, v, lineno)
        else:
            raise AnalysisError(f"unsupported assignment target {t.__name__}")

    def unpack(self, v, n):
        if isinstance(v, (tuple, list)):
            if len(v) != n:
                raise AbstractRaise('ValueError', f"not enough/too many values to unpack (expected {n}, got {len(v)})")
            return list(v)
        if is_arraylike(v):
            a = snap(v)
            if a.ndim < 1:
                raise AbstractRaise('TypeError', "cannot unpack 0-d array")
            try:
                m = a.shape[0].as_int()
            except ValueError:
                raise AnalysisError("unpacking an array of symbolic length")
            if m != n:
                raise AbstractRaise('ValueError', f"not enough/too many values to unpack (expected {n}, got {m})")
            if a.ndim == 1:
                return [a.at((Rat.const(i),)) for i in range(n)]
            return [A.index_arr(self.ctx, a, (Rat.const(i),)) for i in range(n)]
        raise AnalysisError(f"cannot unpack {v!r}")

    def _note_write(self, box, lineno):
        """a store into `box`; reported when the box - or an array whose memory it shares (TrackedArray(x), x.reshape(..),
        x.ravel() are views in numpy) - is read-only input storage"""
        seen = 0
        while box is not None and seen < 8:
            if isinstance(box, View):
                box = box.base
                continue
            if isinstance(box, Box) and box.frozen:
                self.events.append(('input-mutated', box.frozen, self.cur_file, lineno))
                return
            box = box.attrs.get('shares') if isinstance(box, Box) else None
            seen += 1

    def store_subscript(self, base, key, v, lineno):
        if isinstance(base, Box):
            self._note_write(base, lineno)
            if is_arraylike(v) or isinstance(v, (Rat, list, tuple, bool, int, Fraction)):
                A.assign_index(self.ctx, base, key, v, lineno)
                if base.attrs.get('tracked'):
                    base.attrs['_modified'] = True
                return
            raise AnalysisError(f"storing {v!r} into an array")
        if isinstance(base, View):
            # write through a view: only the trivial full-slice forms
            k = key if isinstance(key, tuple) else (key,)
            if all((isinstance(x, Sl) and x.lo is None and x.hi is None) or x is ELLIPSIS for x in k):
                return self.store_subscript(base.base, base.key, v, lineno)
            raise AnalysisError("write through a view with a non-trivial index")
        if isinstance(base, list):
            tag = getattr(self, 'frozen_lists', {}).get(id(base))
            if tag:
                self.events.append(('input-mutated', tag, self.cur_file, lineno))
            base[R(key).as_int()] = v
            return
        if isinstance(base, dict):
            base[key] = v
            return
        if isinstance(base, list):
            base[R(key).as_int()] = v
            return
        raise AnalysisError(f"subscript store on {base!r}")

    def tracked_view(self, src):
        """np.asarray(src).view(TrackedArray): a new array object on the storage of `src`"""
        if isinstance(src, (AForeign, ASparse)):
            src = Box(snap(Rat.atom(('foreign', getattr(src, 'kind', 'sparse')))))     # np.asarray(x): a 0-d array
        if not is_arraylike(src):
            raise AnalysisError(f"TrackedArray view of {type(src).__name__}")
        b = Box(snap(src))
        if isinstance(src, Box):
            b.log, b.base_zero = list(src.log), src.base_zero          # a flat vector keeps its scattered entries there
        b.attrs['tracked'] = True
        b.attrs['shares'] = src if isinstance(src, (Box, View)) else None
        return b

    def set_attr(self, obj, name, v, lineno):
        if isinstance(obj, AObj):
            setter = self.sm.find_setter(obj.cls, name)
            if setter is not None:
                self.call_function(setter, [obj, v], self_obj=obj)
                return
            if self.sm.find_getter(obj.cls, name) is not None:
                raise AbstractRaise('AttributeError', f"property '{name}' of '{obj.cls}' object has no setter")
            if name in self.watch_attrs:
                self.oplog.append(('write', name, obj.id))
            if obj.cls == 'ndarray_plain':
                # a plain numpy array has no instance dictionary: new attributes cannot be set on it
                raise AbstractRaise('AttributeError', f"'numpy.ndarray' object has no attribute '{name}'")
            obj.attrs[name] = v
            return
        if isinstance(obj, (Box, View)):
            if name == 'modified':
                self._set_modified(obj, v)
                return
            obj.attrs[name] = v
            return
        raise AnalysisError(f"attribute store on {obj!r}.{name}")

    def _set_modified(self, obj, v):
        root = obj
        while isinstance(root, View):
            root = root.base
        root.attrs['_modified'] = bool(self.truth(v))

    # ------------------------------------------------------------------------------------------
    # expressions
    # ------------------------------------------------------------------------------------------
    def eval(self, fr, e):
        t = type(e)
        m = getattr(self, 'ev_' + t.__name__, None)
        if m is None:
            raise AnalysisError(f"unsupported expression {t.__name__} at {fr.module}.py:{getattr(e, 'lineno', '?')}")
        return m(fr, e)

    def ev_Constant(self, fr, e):
        v = e.value
        if isinstance(v, bool) or v is None or isinstance(v, str):
            return v
        if isinstance(v, int):
            return Rat.const(v)
        if isinstance(v, float):
            return Rat.const(Fraction(repr(v)))
        if v is Ellipsis:
            return ELLIPSIS
        raise AnalysisError(f"constant {v!r}")

    def ev_Name(self, fr, e):
        n = e.id
        f = fr
        while f is not None:
            if n in f.vars:
                return f.vars[n]
            f = getattr(f, 'parent', None)
        if n in fr.locals:
            raise AbstractRaise('UnboundLocalError', f"cannot access local variable '{n}' where it is not associated with a value", getattr(e, 'lineno', None))
        return self.global_name(fr.module, n, e)

    def global_name(self, module, n, e=None):
        r = self.sm.resolve(module, n)
        if r is not None:
            k, v = r
            if k == 'func':
                return AFuncRef(v)
            if k == 'class':
                return AClassRef(v.name)
            if k == 'ext':
                return self.external(v)
            if k == 'global':
                # a module-level binding is evaluated once per interpreter, as at import: a mutable module-level object (a cache
                # dict, a list) keeps its state between the calls this interpreter makes
                st = self.__dict__.setdefault('_module_state', {})
                if (module, n) not in st:
                    st[(module, n)] = self.eval(Frame(module), v.value)
                return st[(module, n)]
        if n in _BUILTINS or n in _EXC_NAMES:
            return Builtin(n)
        if n in ('True', 'False', 'None'):
            return {'True': True, 'False': False, 'None': None}[n]
        import builtins as _b
        if hasattr(_b, n):
            raise AnalysisError(f"unresolved name {n!r} in module {module}" + (f" line {e.lineno}" if e is not None else '') + " (a python builtin that is not modelled)")
        # neither a local, a module-level name, an import nor a builtin: python raises NameError when the statement runs
        raise AbstractRaise('NameError', f"name '{n}' is not defined", getattr(e, 'lineno', None))

    def external(self, dotted):
        if dotted == 'numpy':
            return NP
        last = dotted.split('.')[-1]
        if dotted.startswith('numpy.'):
            return NPFunc(last)
        if last in ('coo_array', 'coo_matrix', 'csr_matrix', 'csc_array', 'csc_matrix') and dotted.startswith('scipy.sparse'):
            return Builtin('csr_array')     # the triplet form builds the same matrix (duplicates summed) in every sparse format
        if last in ('csr_array', 'spsolve', 'use_solver', 'warn', 'deepcopy', 'overload', 'Callable'):
            return Builtin(last)
        if dotted in ('copy.copy',):
            return Builtin('copy')
        return Builtin('ext:' + dotted)

    def ev_Attribute(self, fr, e):
        obj = self.eval(fr, e.value)
        return self.get_attr(obj, e.attr, e)

    def get_attr(self, obj, name, e=None):
        if isinstance(obj, NPModule):
            if name == 'newaxis':
                return NEWAXIS
            if name == 'pi':
                return Rat.atom(('pi',))
            if name == 'ndarray':
                return NDARRAY
            if name in ('inf',):
                raise AnalysisError("np.inf")
            return NPFunc(name)
        if isinstance(obj, AObj):
            if name in self.watch_attrs:
                self.oplog.append(('read', name, obj.id))
            if name in obj.attrs:
                return obj.attrs[name]
            g = self.sm.find_getter(obj.cls, name)
            if g is not None:
                val = self.call_function(g, [obj], self_obj=obj)
                if getattr(g, 'cached_property', False):
                    obj.attrs[name] = val
                return val
            mth = self.sm.find_method(obj.cls, name)
            if mth is not None:
                decos = {ast.unparse(d) for d in getattr(mth.node, 'decorator_list', [])}
                if 'staticmethod' in decos:
                    return AFuncRef(mth)
                if 'classmethod' in decos:
                    return ABound(AClassRef(obj.cls), mth)
                return ABound(obj, mth)
            if name == '__class__':
                return AClassRef(obj.cls)
            raise AbstractRaise('AttributeError', f"'{obj.cls}' object has no attribute '{name}'")
        if isinstance(obj, ASuper):
            mro = self.sm.mro(obj.obj.cls)
            if obj.after in mro:
                for c in mro[mro.index(obj.after) + 1:]:
                    ci = self.sm.cls(c)
                    if name in ci.methods:
                        return ABound(obj.obj, ci.methods[name])
            return Builtin('noop')
        if isinstance(obj, AClassRef):
            if name == '__name__':
                return AStr(obj.name)
            if name == '__mro__' and self.sm.has_cls(obj.name):
                # the classes of the package in resolution order (`object` and foreign bases are not represented)
                return tuple(AClassRef(c) for c in self.sm.mro(obj.name))
            if self.sm.has_cls(obj.name):
                mth = self.sm.find_method(obj.name, name)
                if mth is not None:
                    decos = {ast.unparse(d) for d in getattr(mth.node, 'decorator_list', [])}
                    if 'classmethod' in decos:
                        return ABound(obj, mth)
                    return AFuncRef(mth)           # static method, or a plain function taken from the class (explicit self)
            raise AnalysisError(f"class attribute {obj.name}.{name}")
        if isinstance(obj, AForeign) and obj.kind == 'finfo':
            vals = {'eps': Fraction(1, 2 ** 52), 'tiny': Fraction(1, 2 ** 1022), 'smallest_normal': Fraction(1, 2 ** 1022), 'resolution': Fraction(1, 10 ** 15)}
            if name in vals:
                return Rat.const(vals[name])
            raise AnalysisError(f"np.finfo(..).{name}")
        if isinstance(obj, AForeign):
            if name not in obj.has:
                raise AbstractRaise('AttributeError', f"'{obj.kind}' object has no attribute '{name}'")
            if name == 'shape':
                return ()
            if name == 'ndim':
                return ZERO
            if name == 'size':
                return ONE
            return AStr(f"<{obj.kind}.{name}>")
        if is_arraylike(obj):
            return self.arr_attr(obj, name)
        if isinstance(obj, ASparse):
            if name == 'ndim':
                return Rat.const(2)
            if name == 'shape':
                return obj.shape
            if name in ('copy', 'tocsr', 'tocoo', 'tocsc', 'asformat', 'sum_duplicates', 'eliminate_zeros_x'):
                return ArrMethod(obj, name)
            if name == 'format':
                return AStr('csr')
            raise AnalysisError(f"sparse attribute {name}")
        if isinstance(obj, Rat):
            if name == 'ndim':
                return Rat.const(0)
            if name == 'size':
                return Rat.const(1)
            if name == 'shape':
                return ()
            if name == 'item':
                return ArrMethod(obj, 'item')
            raise AbstractRaise('AttributeError', f"'float' object has no attribute '{name}'")
        if isinstance(obj, (str, tuple, list, dict)):
            ok = {str: ('format', 'join', 'startswith', 'endswith', 'lower', 'upper'), tuple: ('index', 'count'),
                  list: ('append', 'extend', 'index', 'count', 'insert', 'pop', 'clear', 'reverse', 'copy'), dict: ('get', 'keys', 'items', 'values')}
            for ty, names in ok.items():
                if isinstance(obj, ty) and name in names:
                    return ArrMethod(obj, name)
            raise AbstractRaise('AttributeError', f"'{type(obj).__name__}' object has no attribute '{name}'")
        if isinstance(obj, OpaqueFn) or isinstance(obj, AFuncRef):
            raise AbstractRaise('AttributeError', f"'function' object has no attribute '{name}'")
        if obj is None:
            raise AbstractRaise('AttributeError', f"'NoneType' object has no attribute '{name}'")
        raise AbstractRaise('AttributeError', f"{type(obj).__name__} object has no attribute '{name}'")

    def arr_attr(self, obj, name):
        if name == 'modified' and isinstance(obj, (Box, View)):
            root = obj
            while isinstance(root, View):
                root = root.base
            return bool(root.attrs.get('_modified', False))
        if isinstance(obj, (Box, View)) and name in obj.attrs:
            return obj.attrs[name]
        if name == 'shape':
            return tuple(snap(obj).shape)
        if name == 'ndim':
            return Rat.const(snap(obj).ndim)
        if name == 'size':
            return snap(obj).size()
        if name == 'T':
            return Box(A.transpose(self.ctx, obj))
        if name == 'base':
            return None
        if name == 'dtype':
            return AStr(snap(obj).kind)
        if name in ('ravel', 'flatten', 'item', 'copy', 'reshape', 'sum', 'max', 'min', 'view', 'fill', 'astype', 'all', 'any', 'tolist'):
            return ArrMethod(obj, name)
        raise AbstractRaise('AttributeError', f"'numpy.ndarray' object has no attribute '{name}'")

    def ev_Tuple(self, fr, e):
        out = []
        for x in e.elts:
            if isinstance(x, ast.Starred):
                out.extend(self.eval(fr, x.value))
            else:
                out.append(self.eval(fr, x))
        return tuple(out)

    def ev_List(self, fr, e):
        return list(self.ev_Tuple(fr, e))

    def ev_Dict(self, fr, e):
        return {self.eval(fr, k): self.eval(fr, v) for k, v in zip(e.keys, e.values)}

    def ev_JoinedStr(self, fr, e):
        return AStr('<fstring>')

    def ev_IfExp(self, fr, e):
        c = self.truth(self.eval(fr, e.test))
        if c is True:
            return self.eval(fr, e.body)
        if c is False:
            return self.eval(fr, e.orelse)
        fk = self.fork if self.fork is not None else (_CompoundFork(JOB_FORK) if (JOB_FORK is not None and is_tolpred(c)) else None)
        if fk is not None and fr.capture is None:
            d = fk.decide(c, f"{fr.module}.py:{e.lineno}: {ast.unparse(e.test)}")
            return self.eval(fr, e.body if d else e.orelse)
        raise AnalysisError("conditional expression on a symbolic value")

    def ev_Lambda(self, fr, e):
        fi = FuncInfo(fr.module, '<lambda>', ast.FunctionDef(name='<lambda>', args=e.args,
                                                            body=[ast.Return(value=e.body)], decorator_list=[], lineno=e.lineno))
        r = AFuncRef(fi)
        r.closure = fr
        return r

    def ev_UnaryOp(self, fr, e):
        v = self.eval(fr, e.operand)
        if isinstance(e.op, ast.Not):
            c = self.truth(v)
            if isinstance(c, bool):
                return not c
            return 1 - c
        if isinstance(e.op, ast.USub):
            return self.neg(v, e.lineno)
        if isinstance(e.op, ast.UAdd):
            return v
        if isinstance(e.op, ast.Invert):
            from .npmodel import _to_bool01
            if isinstance(v, Rat):
                return 1 - _to_bool01(v)
            return Box(A.elementwise(self.ctx, lambda x: 1 - _to_bool01(x), [v], kind='bool', origin=e.lineno))
        raise AnalysisError("unary operator")

    def neg(self, v, lineno=None):
        if isinstance(v, Rat):
            return -v
        if isinstance(v, ASparse):
            return ASparse([dict(en, sign=-en['sign']) for en in v.entries], v.shape, v.issues)
        if A.is_flatvec(v):
            return Box(A.veclin(self.ctx, ast.Mult(), Rat.const(-1), v))
        if is_arraylike(v):
            return Box(A.elementwise(self.ctx, lambda x: -x, [v], kind=snap(v).kind, origin=lineno))
        if isinstance(v, AObj):
            m = self.sm.find_method(v.cls, '__neg__')
            if m:
                return self.call_function(m, [v], self_obj=v)
        if isinstance(v, bool):
            return Rat.const(-int(v))
        raise AnalysisError(f"negation of {v!r}")

    def ev_BoolOp(self, fr, e):
        is_or = isinstance(e.op, ast.Or)
        sym = []
        for x in e.values:
            v = self.eval(fr, x)
            c = self.truth(v)
            if isinstance(c, bool):
                if is_or and c:
                    return v if not sym else True
                if (not is_or) and (not c):
                    return v if not sym else False
                last = v
            else:
                sym.append(c)
                last = c
        if not sym:
            return last
        if is_or:
            p = ONE
            for c in sym:
                p = p * (1 - c)
            return 1 - p
        p = ONE
        for c in sym:
            p = p * c
        return p

    def ev_Compare(self, fr, e):
        left = self.eval(fr, e.left)
        res = None
        for op, rhs in zip(e.ops, e.comparators):
            right = self.eval(fr, rhs)
            r = self.compare(op, left, right, e)
            if res is None:
                res = r
            else:
                if isinstance(res, bool) and isinstance(r, bool):
                    res = res and r
                else:
                    raise AnalysisError("chained symbolic comparison")
            left = right
        return res

    def compare(self, op, a, b, e=None):
        t = type(op)
        if t in (ast.Is, ast.IsNot):
            same = self.identical(a, b)
            return same if t is ast.Is else not same
        if t in (ast.In, ast.NotIn):
            if isinstance(b, (dict, tuple, list, str)):
                r = a in b
                return r if t is ast.In else not r
            raise AnalysisError("'in' on non-container")
        sym = {ast.Lt: '<', ast.LtE: '<=', ast.Gt: '>', ast.GtE: '>=', ast.Eq: '==', ast.NotEq: '!='}[t]
        if isinstance(a, (str, AStr)) or isinstance(b, (str, AStr)):
            if sym == '==':
                return a == b
            if sym == '!=':
                return a != b
            raise AnalysisError("string ordering")
        if isinstance(a, (AClassRef, type(None))) or isinstance(b, (AClassRef, type(None))):
            same = self.identical(a, b)
            return same if sym == '==' else (not same) if sym == '!=' else _bad()
        if isinstance(a, bool):
            a = Rat.const(int(a))
        if isinstance(b, bool):
            b = Rat.const(int(b))
        if isinstance(a, Rat) and isinstance(b, Rat):
            return A.compare_scalar(self.ctx, sym, a, b)
        if isinstance(a, (tuple, list)) and isinstance(b, (tuple, list)) and sym in ('==', '!='):
            if len(a) != len(b):
                return sym == '!='
            eqs = [self.compare(ast.Eq(), x, y) for x, y in zip(a, b)]
            if all(isinstance(x, bool) for x in eqs):
                r = all(eqs)
                return r if sym == '==' else not r
            raise AnalysisError("symbolic tuple comparison")
        if is_arraylike(a) or is_arraylike(b):
            if isinstance(a, (tuple, list)):
                a = A.list_to_arr(list(a))
            if isinstance(b, (tuple, list)):
                b = A.list_to_arr(list(b))
            ctx = self.ctx

            def f(x, y):
                r = A.compare_scalar(ctx, sym, x, y)
                if isinstance(r, bool):
                    return Rat.const(1 if r else 0)
                return r
            return Box(A.elementwise(self.ctx, f, [a, b], kind='bool', origin=getattr(e, 'lineno', None)))
        raise AnalysisError(f"comparison of {a!r} and {b!r}")

    def identical(self, a, b):
        if isinstance(a, AClassRef) and isinstance(b, AClassRef):
            return a.name == b.name
        if a is None or b is None:
            return a is b
        if isinstance(a, bool) and isinstance(b, bool):
            return a == b
        return a is b

    def ev_BinOp(self, fr, e):
        a = self.eval(fr, e.left)
        b = self.eval(fr, e.right)
        return self.binop(e.op, a, b, e.lineno)

    def binop(self, op, a, b, lineno=None):
        t = type(op)
        if isinstance(a, bool):
            a = Rat.const(int(a))
        if isinstance(b, bool):
            b = Rat.const(int(b))
        # python containers
        if isinstance(a, (tuple, list)) and isinstance(b, (tuple, list)) and t is ast.Add:
            return a + b
        if t is ast.Mult and ((isinstance(a, (tuple, list)) and isinstance(b, Rat)) or (isinstance(b, (tuple, list)) and isinstance(a, Rat))):
            # sequence repetition: [x] * 3 (the elements are the same objects, as in python)
            seq, n = (a, b) if isinstance(a, (tuple, list)) else (b, a)
            if not (n.is_const() and n.const_value().denominator == 1):
                raise AnalysisError("repetition of a python sequence by a symbolic count")
            return seq * max(0, int(n.const_value()))
        if isinstance(a, (str, AStr)):
            return AStr('<str>')
        # objects with operator methods
        if isinstance(a, AObj) or isinstance(b, AObj):
            return self.obj_binop(t, a, b, lineno)
        # ndarray (op) python list / tuple of numbers: numpy converts the sequence (np.asarray) and broadcasts
        if is_arraylike(a) and isinstance(b, (list, tuple)) and b and all(isinstance(x, (Rat, bool, int)) for x in b):
            b = Box(A.list_to_arr(list(b)))
        elif is_arraylike(b) and isinstance(a, (list, tuple)) and a and all(isinstance(x, (Rat, bool, int)) for x in a):
            a = Box(A.list_to_arr(list(a)))
        if isinstance(a, ASparse) or isinstance(b, ASparse):
            return self.sparse_binop(t, a, b)
        if isinstance(a, Rat) and isinstance(b, Rat):
            return self.scalar_binop(t, a, b, lineno)
        if A.is_flatvec(a) or A.is_flatvec(b):
            r = A.veclin(self.ctx, op, a, b)
            if r is not None:
                return Box(r)
        if (is_arraylike(a) or isinstance(a, Rat)) and (is_arraylike(b) or isinstance(b, Rat)):
            interp = self

            def f(x, y):
                try:
                    return interp.scalar_binop(t, x, y, lineno)
                except AbstractRaise as e:
                    if e.exc == 'ZeroDivisionError':
                        # numpy arrays do not raise on a division by zero: the element is inf / nan.  An opaque non-finite
                        # atom keeps the element distinguishable from every finite expression, so identities on it fail
                        return Rat.atom(('nonfinite', 'division by an identically zero element', lineno))
                    raise
            ka = snap(a).kind
            kb = snap(b).kind
            kind = 'int' if (ka == 'int' and kb == 'int' and t is not ast.Div) else 'real'
            if ka == 'bool' and kb == 'bool' and t in (ast.Mult, ast.BitOr, ast.BitAnd):
                kind = 'bool'
            res = A.elementwise(self.ctx, f, [a, b], kind=kind, origin=lineno)
            res = self._keep_affine(t, a, b, res)
            return Box(res)
        raise AnalysisError(f"binary operator {t.__name__} on {a!r}, {b!r}")

    def _keep_affine(self, t, a, b, res):
        # int arange +/- scalar int stays an arange (needed for q = q[-1] + int_range(1, K))
        aa = snap(a)
        bb = snap(b)
        if t in (ast.Add, ast.Sub):
            if aa.affine is not None and bb.ndim == 0 and aa.kind == 'int':
                s = bb.at(())
                lo = aa.affine[1] + s if t is ast.Add else aa.affine[1] - s
                res.affine = (aa.affine[0], lo)
                if aa.ndim == 1:
                    res.tag = (lambda idx, lo=lo: (lo + idx[0],))
            elif bb.affine is not None and aa.ndim == 0 and t is ast.Add and bb.kind == 'int':
                s = aa.at(())
                lo = bb.affine[1] + s
                res.affine = (bb.affine[0], lo)
                if bb.ndim == 1:
                    res.tag = (lambda idx, lo=lo: (lo + idx[0],))
        return res

    def scalar_binop(self, t, a: Rat, b: Rat, lineno=None):
        if t is ast.Add:
            return a + b
        if t is ast.Sub:
            return a - b
        if t is ast.Mult:
            return a * b
        if t is ast.Div:
            if b.is_zero():
                raise AbstractRaise('ZeroDivisionError', 'division by zero', lineno)
            return a / b
        if t is ast.Pow:
            if b.is_const():
                ex = b.const_value()
                if ex.denominator == 1:
                    if ex < 0 and a.is_zero():
                        raise AbstractRaise('ZeroDivisionError', '0 ** negative')
                    return a ** int(ex)
                return Rat.atom(('pow', a, ex))
            # non-literal exponent: a finding for the algebraic rules (X5); keep it opaque
            self.events.append(('symbolic-exponent', self.cur_file, lineno))
            return Rat.atom(('powsym', a, b))
        if t in (ast.BitOr, ast.BitAnd):
            from .npmodel import _to_bool01
            x, y = _to_bool01(a), _to_bool01(b)
            return 1 - (1 - x) * (1 - y) if t is ast.BitOr else x * y
        if t is ast.FloorDiv:
            if a.is_const() and b.is_const():
                return Rat.const(a.const_value() // b.const_value())
            q = a / b
            if not q.den:
                return q
            raise AnalysisError("symbolic floor division")
        if t is ast.Mod:
            if a.is_const() and b.is_const():
                return Rat.const(a.const_value() % b.const_value())
            raise AnalysisError("symbolic modulo")
        raise AnalysisError(f"operator {t.__name__}")

    _DUNDER = {ast.Add: ('__add__', '__radd__'), ast.Sub: ('__sub__', '__rsub__'), ast.Mult: ('__mul__', '__rmul__'),
               ast.Div: ('__truediv__', '__rtruediv__'), ast.Pow: ('__pow__', '__rpow__')}

    def obj_binop(self, t, a, b, lineno):
        names = self._DUNDER.get(t)
        if names is None:
            raise AnalysisError("operator on object")
        if isinstance(a, AObj):
            m = self.sm.find_method(a.cls, names[0])
            if m:
                return self.call_function(m, [a, b], self_obj=a)
        if isinstance(b, AObj):
            m = self.sm.find_method(b.cls, names[1])
            if m:
                return self.call_function(m, [b, a], self_obj=b)
        raise AbstractRaise('TypeError', f"unsupported operand type(s)")

    def sparse_binop(self, t, a, b):
        if isinstance(a, ASparse) and isinstance(b, ASparse):
            if t is ast.Add:
                return ASparse(a.entries + b.entries, a.shape, a.issues + b.issues)
            if t is ast.Sub:
                nb = [dict(en, sign=-en['sign']) for en in b.entries]
                return ASparse(a.entries + nb, a.shape, a.issues + b.issues)
        if isinstance(a, ASparse) and isinstance(b, Rat) and t in (ast.Mult, ast.Div):
            f = b if t is ast.Mult else 1 / b
            return ASparse([dict(en, scale=en.get('scale', ONE) * f) for en in a.entries], a.shape, a.issues)
        if isinstance(b, ASparse) and isinstance(a, Rat) and t is ast.Mult:
            return ASparse([dict(en, scale=en.get('scale', ONE) * a) for en in b.entries], b.shape, b.issues)
        other = b if isinstance(a, ASparse) else a
        if is_arraylike(other) and t in (ast.Add, ast.Sub) and snap(other).ndim <= 2:
            # sparse +/- dense: scipy broadcasts the dense operand to the matrix shape and returns a dense 2-D result
            sp = a if isinstance(a, ASparse) else b
            shp = tuple(R(x) for x in sp.shape)
            return Box(Arr(shp, lambda idx: Rat.atom(('dense-of-sparse', id(sp)) + tuple(idx)), 'real'))
        if isinstance(other, (list, tuple, dict, str)) or other is None or isinstance(other, (AObj, AFuncRef, OpaqueFn, AForeign)):
            # scipy returns NotImplemented for operands that are neither sparse, scalar nor ndarray; python then raises
            raise AbstractRaise('TypeError', f"unsupported operand type(s) for sparse arithmetic: 'csr_array' and '{type(other).__name__}'")
        raise AnalysisError("unsupported sparse arithmetic")

    # -- subscripts
    def eval_key(self, fr, s):
        if isinstance(s, ast.Tuple):
            return tuple(self.eval_key1(fr, x) for x in s.elts)
        return self.eval_key1(fr, s)

    def eval_key1(self, fr, s):
        if isinstance(s, ast.Slice):
            if s.step is not None:
                st = self.eval(fr, s.step)
                if not (isinstance(st, Rat) and st.is_const() and st.const_value() == 1):
                    raise AnalysisError("slice step")
            lo = self.eval(fr, s.lower) if s.lower is not None else None
            hi = self.eval(fr, s.upper) if s.upper is not None else None
            return Sl(lo, hi)
        v = self.eval(fr, s)
        if v is None:
            return NEWAXIS
        return v

    def ev_Subscript(self, fr, e):
        base = self.eval(fr, e.value)
        key = self.eval_key(fr, e.slice)
        return self.subscript(base, key, e.lineno)

    def subscript(self, base, key, lineno=None):
        if isinstance(base, NPFunc) and base.name == 'r_':
            # np.r_[a, b, c] of arrays / scalars: concatenation along the first axis (no slice / string forms)
            ks = list(key) if isinstance(key, tuple) else [key]
            if any(isinstance(k, (Sl, str)) for k in ks):
                raise AnalysisError("np.r_ with a slice or string directive")
            from .npmodel import call_np
            return call_np(self, 'hstack', [ks], {}, lineno)
        if isinstance(base, (tuple, list)):
            if isinstance(key, Sl):
                lo = None if key.lo is None else R(key.lo).as_int()
                hi = None if key.hi is None else R(key.hi).as_int()
                return base[lo:hi]
            if is_arraylike(key):
                key = snap(key).at(())
            i = R(key).as_int()
            try:
                return base[i]
            except IndexError:
                raise AbstractRaise('IndexError', 'tuple index out of range', lineno)
        if isinstance(base, dict):
            if key not in base:
                raise AbstractRaise('KeyError', str(key), lineno)
            return base[key]
        if isinstance(base, (Box, View)):
            v = View(base, key, self.ctx, lineno)
            a = v.snap()        # validates the index now (raises IndexError etc.)
            if a.ndim == 0 and not _key_has_arrays(key):
                return a.at(())
            return v
        if isinstance(base, Arr):
            a = A.index_arr(self.ctx, base, key)
            if a.ndim == 0:
                return a.at(())
            return a
        if isinstance(base, Rat):
            raise AbstractRaise('TypeError', "'float' object is not subscriptable", lineno)
        if isinstance(base, ASparse):
            raise AnalysisError("indexing a sparse matrix")
        raise AnalysisError(f"subscript on {base!r}")

    def ev_Slice(self, fr, e):
        return self.eval_key1(fr, e)

    def ev_Starred(self, fr, e):
        raise AnalysisError("starred expression outside call")

    # -- calls
    def ev_Call(self, fr, e):
        # super()
        if isinstance(e.func, ast.Name) and e.func.id == 'super' and not e.args:
            if fr.fi is None or fr.fi.cls is None:
                raise AnalysisError("super() outside method")
            return ASuper(fr.self_obj, fr.fi.cls)
        f = self.eval(fr, e.func)
        args = []
        for a in e.args:
            if isinstance(a, ast.Starred):
                v = self.eval(fr, a.value)
                if not isinstance(v, (tuple, list)):
                    raise AnalysisError("*arg of non-tuple")
                args.extend(v)
            else:
                args.append(self.eval(fr, a))
        kwargs = {}
        for k in e.keywords:
            if k.arg is None:
                v = self.eval(fr, k.value)
                kwargs.update(v)
            else:
                kwargs[k.arg] = self.eval(fr, k.value)
        return self.call(f, args, kwargs, e.lineno, fr)

    def call(self, f, args, kwargs, lineno=None, fr=None):
        if isinstance(f, AFuncRef):
            cl = getattr(f, 'closure', None)
            if cl is not None:
                return self._call_closure(f, cl, args, kwargs)
            return self.call_function(f.fi, args, kwargs)
        if isinstance(f, ABound):
            return self.call_function(f.fi, [f.obj] + list(args), kwargs, self_obj=f.obj)
        if isinstance(f, AClassRef) and not isinstance(f, ATypeRef):
            return self.instantiate(f.name, args, kwargs)
        if isinstance(f, NPFunc):
            from .npmodel import call_np
            return call_np(self, f.name, args, kwargs, lineno)
        if isinstance(f, ArrMethod):
            from .npmodel import call_method
            return call_method(self, f.obj, f.name, args, kwargs, lineno)
        if isinstance(f, Builtin):
            from .npmodel import call_builtin
            return call_builtin(self, f.name, args, kwargs, lineno, fr)
        if isinstance(f, PyCallable):
            return f.fn(args, kwargs)
        if isinstance(f, OpaqueFn):
            nm = f.name
            if len(args) == 1:
                if isinstance(args[0], Rat):
                    return A.opaque_fn(nm, args[0])
                return Box(A.elementwise(self.ctx, lambda x: A.opaque_fn(nm, x), [args[0]], origin=lineno))
            f.calls = getattr(f, 'calls', 0) + 1
            return Box(A.elementwise(self.ctx, lambda *xs: Rat.atom(('fnN', nm) + tuple(xs)), list(args), origin=lineno))
        raise AbstractRaise('TypeError', f"{type(f).__name__} object is not callable")

    def _call_closure(self, f, cl, args, kwargs):
        fi = f.fi
        fr = Frame(fi.module, fi, cl.self_obj)
        fr.parent = cl
        self._bind(fr, fi, args, kwargs)
        try:
            self.exec_block(fr, fi.node.body)
            return None
        except _Return as r:
            return r.value


def _neg_arr(s):
    return Arr(s.shape, lambda idx: -s.at(idx), s.kind, tag=s.tag, origin=s.origin)


def _bad():
    raise AnalysisError("ordering comparison on objects")


def _load(node):
    import copy
    n = copy.copy(node)
    n.ctx = ast.Load()
    return n


def _key_has_arrays(key):
    ks = key if isinstance(key, tuple) else (key,)
    return any(is_arraylike(k) or isinstance(k, list) for k in ks)


def _only_warns(body):
    for st in body:
        if isinstance(st, ast.Expr) and isinstance(st.value, ast.Call) and isinstance(st.value.func, ast.Name) \
                and st.value.func.id in ('warn', 'print'):
            continue
        return False
    return True
