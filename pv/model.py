"""Symbolic worlds: a mesh of a given class with symbolic (or concrete) sizes built by *interpreting
mesh.py*, symbolic coefficient / field / boundary-condition objects, and the extraction of stencil
tables from interpreted builders."""
from __future__ import annotations
from fractions import Fraction
from .alg import Rat, Poly, atom_id, fmt_rat
from .srcmodel import SourceModel, AnalysisError, MESH_CLASSES
from . import arrays as A
from .arrays import Ctx, Arr, Box, View, Sl, AbstractRaise, snap, is_arraylike, R, ZERO, ONE
from .interp import Interp, AObj, ASparse, OpaqueFn, AFuncRef

AX = ('x', 'y', 'z')
DIM = {'Grid1D': 1, 'CylindricalGrid1D': 1, 'SphericalGrid1D': 1, 'Grid2D': 2, 'CylindricalGrid2D': 2,
       'PolarGrid2D': 2, 'Grid3D': 3, 'CylindricalGrid3D': 3, 'SphericalGrid3D': 3}
FACES = ('left', 'right', 'bottom', 'top', 'back', 'front')


def atom_array(name, shape, root=None, kind='real', offset=None):
    """array of atoms (name, i, j, k) ; offset shifts the index recorded in the atom"""
    shape = tuple(R(s) for s in shape)
    off = offset or tuple(ZERO for _ in shape)

    parts = tuple(name) if isinstance(name, tuple) else (name,)

    def fn(idx):
        return Rat.atom(parts + tuple(i + o for i, o in zip(idx, off)))
    return Arr(shape, fn, kind, root=root)


class World:
    """one mesh class, sizes symbolic (sizes=None) or concrete ints"""

    def __init__(self, sm: SourceModel, meshcls: str, sizes=None, uniform=False, int_data=False):
        self.sm = sm
        # int_data: the user-supplied arrays (face positions, cell values) have an integer dtype - a legal input; every
        # array the library derives from them by true division or by mixing with floats is real, and a store of such a
        # value into an integer array truncates (arrays._trunc)
        self.int_data = int_data
        self.meshcls = meshcls
        self.dim = DIM[meshcls]
        self.ctx = Ctx()
        self.interp = Interp(sm, self.ctx)
        # _fsign is analysed on its own (C13.F8); inside stencils it is an opaque elementwise guard
        self.interp.opaque_summaries[('advection', '_fsign')] = _fsign_summary
        self.symbolic = sizes is None
        self.uniform = uniform
        d = self.dim
        if sizes is None:
            self.N = [self.ctx.size_symbol(AX[k]) for k in range(d)]
        else:
            self.N = [Rat.const(int(n)) for n in sizes]
        # generic position symbols (full-array cell coordinates): M <= t <= N+1-M
        self.t = []
        if self.symbolic:
            M = self.ctx.M
            for k in range(d):
                n = self.N[k].as_poly()
                self.t.append(self.ctx.pos_symbol(AX[k], Poly.const(M), n + (1 - M)))
        # per-axis 'generic' cell coordinate: the position symbol, or the middle cell of a concrete grid
        self.g = list(self.t) if self.symbolic else [Rat.const(max(1, (int(n.const_value()) + 1) // 2)) for n in self.N]
        self.pos_atoms = set()
        self.nonneg_atoms = set()
        self._zcount = 0
        self._vol = None
        A.ABS_HOOK = _abs_hook_for(self)
        A.set_int_heads(('f',) if int_data else ())
        self.mesh = self._build_mesh()

    # -- mesh -------------------------------------------------------------------------------
    def face_array(self, k):
        ax = AX[k]
        n = self.N[k] + 1
        return Arr((n,), lambda idx: Rat.atom(('f', ax, idx[0])), 'int' if self.int_data else 'real', root='arg.facelocation' + ax.upper())

    def _build_mesh(self):
        d = self.dim
        if self.uniform == 'faces':
            # equispaced faces handed in as arrays, with a free origin and spacing per axis: f[i] = X0 + i*h
            def mk(k):
                x0, h = Rat.atom(('X0', AX[k])), Rat.atom(('h', AX[k]))
                return Box(Arr((self.N[k] + 1,), lambda idx: x0 + idx[0] * h, 'real', root='arg.facelocation' + AX[k].upper()))
            args = [mk(k) for k in range(d)]
        elif self.uniform:
            args = list(self.N) + [Rat.atom(('L', AX[k])) for k in range(d)]
        else:
            args = [Box(self.face_array(k)) for k in range(d)]
        mesh = self.interp.instantiate(self.meshcls, args)
        self._freeze(mesh, 'mesh', set())
        return mesh

    def _freeze(self, obj, path, seen):
        if isinstance(obj, AObj):
            if obj.id in seen:
                return
            seen.add(obj.id)
            for k, v in obj.attrs.items():
                self._freeze(v, path + '.' + k, seen)
        elif isinstance(obj, Box):
            obj.frozen = path
            obj.name = path

    # -- inputs -----------------------------------------------------------------------------
    def full_shape(self):
        return tuple(n + 2 for n in self.N)

    def face_shape(self, k):
        return tuple((n + 1) if j == k else n for j, n in enumerate(self.N))

    def face_variable(self, name):
        attrs = {'domain': self.mesh}
        for k in range(3):
            key = '_' + AX[k] + 'value'
            if k < self.dim:
                b = Box(atom_array((name, AX[k]), self.face_shape(k), root=f'{name}.{key}'))
                b.frozen = f'{name}.{key}'
            else:
                b = Box(Arr((ZERO,), lambda idx: _empty_read(), 'real'))
                b.frozen = f'{name}.{key}'
            attrs[key] = b
        return AObj('FaceVariable', attrs)

    def cell_variable(self, name, bcs=None, kind=None):
        kind = kind or ('int' if self.int_data else 'real')
        if kind == 'int':
            # an integer-dtype array is a legal *input*: go through the real constructor (ghost cells included in the
            # array, so that all values stay free atoms) and take whatever dtype it decides to store
            if bcs is None:
                bcs = self.interp.call_function(self.sm.func('boundary', 'BoundaryConditions'), [self.mesh])
            src = Box(atom_array((name,), self.full_shape(), root=f'arg.{name}', kind='int'))
            v = self.interp.instantiate('CellVariable', [self.mesh, src, bcs], {'BCsTerm_precalc': False})
            b = v.attrs['_value']
            b.frozen = f'{name}._value'
            return v
        b = Box(atom_array((name,), self.full_shape(), root=f'{name}._value', kind=kind))
        b.frozen = f'{name}._value'
        b.attrs['tracked'] = True
        b.attrs['_modified'] = False
        attrs = {'domain': self.mesh, '_value': b, 'BCsTerm_precalc': False}
        if bcs is None:
            bcs = self.interp.call_function(self.sm.func('boundary', 'BoundaryConditions'), [self.mesh])
        attrs['BCs'] = bcs
        return AObj('CellVariable', attrs)

    def boundary_conditions(self, periodic=(), name='bc', kinds=None):
        """BoundaryConditions object built by the repo's own factory, coefficient arrays replaced by
        atoms (keeping the shapes the factory chose); `periodic` = set of face names flagged periodic.
        kinds: optional {face: 'dirichlet'|'neumann'} to specialise a/b to constants."""
        fac = self.sm.func('boundary', 'BoundaryConditions')
        bc = self.interp.call_function(fac, [self.mesh])
        for face in FACES:
            bf = bc.attrs[face]
            for coef in ('a', 'b', 'c'):
                box = bf.attrs['_' + coef]
                shp = box.cur.shape
                if shp and shp[0].is_zero():
                    continue
                kind = (kinds or {}).get(face)
                if kind == 'dirichlet' and coef in ('a', 'b'):
                    box.cur = A.const_arr(shp, ZERO if coef == 'a' else ONE)
                elif kind == 'neumann' and coef in ('a', 'b'):
                    box.cur = A.const_arr(shp, ONE if coef == 'a' else ZERO)
                elif kind == 'noflux':
                    box.cur = A.const_arr(shp, ONE if coef == 'a' else ZERO)
                else:
                    # index atoms by the non-unit axes only (so (1,Ny) and (Ny,) name the same atoms)
                    box.cur = _bc_atoms(name, face, coef, shp)
                box.frozen = f'{name}.{face}._{coef}'
                box.log = []
            bf.attrs['_periodic'] = face in periodic
        return bc

    # -- running builders ---------------------------------------------------------------------
    def call(self, module, fname, *args, **kwargs):
        fi = self.sm.func(module, fname)
        return self.interp.call_function(fi, list(args), kwargs)

    # -- index classes ------------------------------------------------------------------------
    def interior_classes(self, k, tier='quick'):
        """cell positions (full coordinates) of interior cells along axis k"""
        n = self.N[k]
        if not self.symbolic:
            return [Rat.const(i) for i in range(1, n.as_int() + 1)]
        if tier == 'quick':
            return [ONE, Rat.const(2), self.t[k], n - 1, n]
        return [ONE, Rat.const(2), Rat.const(3), self.t[k], n - 2, n - 1, n]

    def generic_cell(self):
        if not self.symbolic:
            raise AnalysisError("generic cell in a concrete world")
        return tuple(self.t)

    def zsym(self, n: Rat):
        self._zcount += 1
        return self.ctx.bound_symbol(('z', self._zcount), Poly.const(0), (n - 1).as_poly())

    # -- reading sparse matrices and vectors row-wise -------------------------------------------
    def _solve_row(self, rows: Arr, P):
        """find the index into segment `rows` whose tagged cell is P; None if absent (the last one if several positions of a
        concrete axis carry P: a later store wins).  Axes of concrete (small) length are enumerated, symbolic axes are solved."""
        hits = self._solve_row_all(rows, P)
        return hits[-1] if hits else None

    def _solve_row_all(self, rows: Arr, P):
        """every index into segment `rows` whose tagged cell is P (a (row, col, value) segment written as a short literal
        sequence may name one row several times: all of them are entries of that row)"""
        ctx = self.ctx
        if rows.ndim == 0:
            tg = self._tag(rows, ())
            for a, b in zip(tg, P):
                if not ctx.eq(a, b):
                    return []
            return [()]
        import itertools
        conc_axes = []
        for j, s in enumerate(rows.shape):
            if s.is_const() and (self.symbolic or True):
                n = s.as_int()
                if n > 64 and self.symbolic:
                    raise AnalysisError("concrete row segment axis too long to enumerate")
                conc_axes.append((j, n))
        if not self.symbolic:
            # fully concrete world: plain enumeration
            hits = []
            for cand in itertools.product(*[range(n) for _j, n in conc_axes]):
                idx = tuple(Rat.const(c) for c in cand)
                tg = self._tag(rows, idx)
                if all(ctx.eq(a, b) for a, b in zip(tg, P)):
                    hits.append(idx)
            return hits
        hits = []
        for cand in itertools.product(*[range(n) for _j, n in conc_axes]):
            fixed = {j: Rat.const(c) for (j, _n), c in zip(conc_axes, cand)}
            r = self._solve_row_sym(rows, P, fixed)
            if r is not None:
                hits.append(r)
        return hits

    def _solve_row_sym(self, rows, P, fixed):
        ctx = self.ctx
        zs = [fixed[j] if j in fixed else self.zsym(s) for j, s in enumerate(rows.shape)]
        tg = self._tag(rows, tuple(zs))
        if len(tg) != len(P):
            raise AnalysisError(f"row tag arity {len(tg)} vs mesh dimension {len(P)}")
        zids = {atom_id(_akey(z)): j for j, z in enumerate(zs) if j not in fixed}
        sol = dict(fixed)
        pending = []
        for comp, target in zip(tg, P):
            p = comp.as_poly()
            dep = [a for a in p.atoms() if a in zids]
            if not dep:
                pending.append((comp, target))
                continue
            if len(dep) > 1:
                raise AnalysisError("row tag mixes several segment axes")
            a = dep[0]
            c = p.coeff_of(a, 1)
            if p.degree_in(a) != 1 or not c.is_const() or c.const_value() != 1:
                raise AnalysisError("row tag is not unit-affine in the segment index")
            rest = Rat(p.without(a))
            val = target - rest
            j = zids[a]
            if j in sol:
                if not ctx.eq(sol[j], val):
                    return None
            else:
                sol[j] = val
        for comp, target in pending:
            if not ctx.eq(comp, target):
                return None
        idx = []
        for j, s in enumerate(rows.shape):
            if j not in sol:
                raise AnalysisError("row segment axis not determined by the cell tag")
            v = sol[j]
            if not (ctx.le(ZERO, v) and ctx.lt(v, s)):
                return None
            idx.append(v)
        return tuple(idx)

    def _tag(self, arr: Arr, idx):
        tg = arr.tag_at(idx) if arr.tag is not None else None
        if tg is None:
            if self.dim == 1:
                return (arr.at(idx),)
            raise AnalysisError("integer array without cell tags used as row/column numbers")
        return tuple(tg)

    def matrix_row(self, M: ASparse, P):
        """all entries of row P: list of dict(col=tuple, val=Rat, block=.., seg=..)"""
        out = []
        for en in M.entries:
            for idx in self._solve_row_all(en['rows'], P):
                cols = en['cols']
                ctag = self._tag(cols, idx if cols.ndim else ())
                v = en['vals']
                val = v.at(idx) if v.ndim else v.at(())
                val = val * en['sign'] * en.get('scale', ONE)
                out.append(dict(col=tuple(ctag), val=val, block=en['block'], seg=en['seg'], origin=v.origin))
        return out

    def vector_at(self, V, P):
        """value of a right-hand-side vector at cell P"""
        a0 = V.cur if isinstance(V, Box) else V
        if isinstance(a0, Arr) and a0.label and a0.label[0] == 'veclin' and not (isinstance(V, Box) and V.log):
            s = ZERO
            for c, comp in a0.label[1]:
                s = s + c * self.vector_at(comp, P)
            return s
        if isinstance(a0, Arr) and a0.label and a0.label[0] == 'flatvec' and not (isinstance(V, Box) and V.log):
            return a0.label[1](self.full_shape()).at(P)
        if isinstance(V, Box):
            scat = [w for w in V.log if w[0][0] == 'cellscatter']
            if scat or (V.cur.label and V.cur.label[0] == 'scattered'):
                for (kinfo, val, ln) in reversed(V.log):
                    if kinfo[0] == 'adv' and len(kinfo[1]) == 1:
                        idxarr = kinfo[1][0]
                    elif kinfo[0] == 'cellscatter':
                        idxarr = kinfo[1]
                    else:
                        raise AnalysisError(f"flat vector written by {kinfo[0]} after a cell scatter")
                    vsegs = snap(val)
                    vsegs = vsegs.segs if vsegs.segs is not None else [vsegs]
                    rsegs = idxarr.segs if idxarr.segs is not None else [idxarr]
                    if len(vsegs) != len(rsegs) and not (len(vsegs) == 1 and vsegs[0].ndim == 0):
                        raise AnalysisError("scatter: value/index block structure differs")
                    from .npmodel import _squeeze
                    if len(vsegs) == 1 and vsegs[0].ndim == 0 and len(rsegs) > 1:
                        vsegs = vsegs * len(rsegs)
                    for rs, vs in zip(rsegs, vsegs):
                        rs, vs = _squeeze(rs), _squeeze(vs)
                        if vs.ndim and (vs.ndim != rs.ndim or any(not (x - y).is_zero() for x, y in zip(vs.shape, rs.shape))):
                            raise AbstractRaise('ValueError', 'shape mismatch in scatter assignment')
                        idx = self._solve_row(rs, P)
                        if idx is not None:
                            return vs.at(idx) if vs.ndim else vs.at(())
                if V.base_zero:
                    return ZERO
                raise AnalysisError("scatter vector without zero base")
        a = snap(V)
        if a.ndim == len(P):
            return a.at(P)
        if a.ndim == 1 and self.dim == 1:
            return a.at(P)
        raise AnalysisError(f"vector of rank {a.ndim} read at a cell of dimension {len(P)}")


def _akey(r: Rat):
    from .alg import atom_key
    (m, c), = r.num.t.items()
    return atom_key(m[0][0])


def _empty_read():
    raise AbstractRaise('IndexError', 'index out of bounds for axis 0 with size 0')


def _bc_atoms(name, face, coef, shp):
    keep = [k for k, d in enumerate(shp) if not (d.is_const() and d.const_value() == 1)]

    def fn(idx):
        return Rat.atom((name, face, coef) + tuple(idx[k] for k in keep))
    return Arr(shp, fn, 'real', root=f'{name}.{face}._{coef}')


# ----------------------------------------------------------------------------------------------
# sign reasoning under the documented mesh preconditions
# ----------------------------------------------------------------------------------------------
RADIAL = {'CylindricalGrid1D', 'SphericalGrid1D', 'CylindricalGrid2D', 'PolarGrid2D', 'CylindricalGrid3D', 'SphericalGrid3D'}


def _world_sign_of(self, r):
    """sign of a Rat under: faces strictly increasing; radial faces >= 0; angles >= 0;
    sin(theta) > 0 on spherical grids; declared positive atoms.  '+','-','0' or None."""
    from .alg import sign_by_increments, atom_key
    r = R(r)
    if r.coef == 0:
        return '0'
    sgn = 1 if r.coef > 0 else -1
    strict = True
    for f, e in r.fac:
        s = self._poly_sign(f)
        if s is None:
            return None
        if s == 'zero':
            return '0'
        if s in ('neg', 'nonpos') and e % 2:
            sgn = -sgn
        if s in ('nonneg', 'nonpos'):
            if e < 0:
                return None
            strict = False
    if not strict:
        return None          # callers needing weak signs use weak_sign_of
    return '+' if sgn > 0 else '-'


def _world_weak_sign_of(self, r):
    """'>=0', '<=0', '+', '-', '0' or None"""
    r = R(r)
    if r.coef == 0:
        return '0'
    sgn = 1 if r.coef > 0 else -1
    strict = True
    for f, e in r.fac:
        s = self._poly_sign(f)
        if s is None:
            return None
        if s == 'zero':
            return '0'
        if s in ('neg', 'nonpos') and e % 2:
            sgn = -sgn
        if s in ('nonneg', 'nonpos'):
            if e < 0:
                return None
            strict = False
    if strict:
        return '+' if sgn > 0 else '-'
    return '>=0' if sgn > 0 else '<=0'


def _world_poly_sign(self, p):
    from .alg import sign_by_increments, atom_key
    cache = self.__dict__.setdefault('_sign_cache', {})
    k = p.key()
    if k in cache:
        return cache[k]
    chains = {}
    pos = set(self.pos_atoms)
    nonneg = set(self.nonneg_atoms)
    # position symbols (generic cell index t with a constant lower bound): t = lo + s with s >= 0, so that e.g. 3t^2 - 3t + 1
    # becomes a polynomial with positive coefficients in s
    from .alg import Poly as _Poly, atom_id as _aid
    shift = {}
    for a in p.atoms():
        key = atom_key(a)
        if isinstance(key, tuple) and key and key[0] == 't' and a in self.ctx.bounds:
            lo_b = self.ctx.bounds[a][0]
            if lo_b.is_const():
                s_id = _aid(('tshift',) + tuple(key[1:]))
                shift[a] = _Poly({((s_id, 1),): 1}) + lo_b.const_value()
                nonneg.add(s_id)
    if shift:
        p = p.subs(shift)
    for a in p.atoms():
        key = atom_key(a)
        if isinstance(key, tuple) and key:
            if key[0] == 'f':
                chains.setdefault(key[1], []).append((a, key[2]))
            elif key[0] == 'pi' or key[0] == 'L':
                pos.add(a)
            elif key[0] == 'fn' and key[1] == 'sin' and self.meshcls == 'SphericalGrid3D':
                pos.add(a)
            elif key[0] in ('N',):
                pos.add(a)
    chain_lists = []
    for ax, lst in chains.items():
        # sort by index with the oracle
        import functools

        def cmp(x, y):
            if self.ctx.eq(x[1], y[1]):
                return 0
            return -1 if self.ctx.lt(x[1], y[1]) else 1
        lst = sorted(lst, key=functools.cmp_to_key(cmp))
        ids = [a for a, _i in lst]
        chain_lists.append(ids)
        if (ax == 'x' and self.meshcls in RADIAL) or (ax in ('y', 'z') and self.meshcls in ('PolarGrid2D', 'CylindricalGrid3D', 'SphericalGrid3D') and _is_angle(self.meshcls, ax)):
            nonneg.add(ids[0])
    res = sign_by_increments(p, chain_lists, pos_atoms=pos, nonneg_atoms=nonneg)
    cache[k] = res
    return res


def _is_angle(meshcls, ax):
    if meshcls == 'PolarGrid2D':
        return ax == 'y'
    if meshcls == 'CylindricalGrid3D':
        return ax == 'y'
    if meshcls == 'SphericalGrid3D':
        return ax in ('y', 'z')
    return False


def _abs_hook_for(world):
    def hook(x):
        try:
            s = world.weak_sign_of(x)
        except AnalysisError:
            return None
        if s in ('+', '>=0'):
            return '+'
        if s in ('-', '<=0'):
            return '-'
        if s == '0':
            return '0'
        return None
    return hook


World.sign_of = _world_sign_of
World.weak_sign_of = _world_weak_sign_of
World._poly_sign = _world_poly_sign


def _world_activate(self):
    A.ABS_HOOK = _abs_hook_for(self)
    return self


World.activate = _world_activate


def _world_volume(self):
    """Arr of cell volumes (interior-indexed) obtained by interpreting <Class>._getCellVolumes"""
    if getattr(self, '_vol', None) is None:
        self.activate()
        v = self.interp.get_attr(self.mesh, 'cellvolume')
        self._vol = snap(v)
    return self._vol


def _world_vol_at(self, P):
    v = self.volume()
    return v.at(tuple(p - 1 for p in P))


World.volume = _world_volume
World.vol_at = _world_vol_at


def _fsign_summary(interp, args, kwargs):
    x = args[0]
    if isinstance(x, Rat):
        return A.opaque_fn('fsign', x)
    return Box(A.elementwise(interp.ctx, lambda v: A.opaque_fn('fsign', v), [x]))
