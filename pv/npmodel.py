"""Models of the numpy / scipy / builtin calls that PyFVTool's builders use (closed list; anything
else is an AnalysisError)."""
from __future__ import annotations
import ast
from fractions import Fraction
from .alg import Rat
from .srcmodel import AnalysisError
from . import arrays as A
from .arrays import Arr, Box, View, Sl, AbstractRaise, snap, is_arraylike, R, ZERO, ONE


def _origin(interp, lineno):
    return lineno


def call_np(interp, name, args, kwargs, lineno):
    from .interp import ASparse, AObj
    ctx = interp.ctx
    if name in ('zeros', 'ones', 'empty'):
        shape = A.to_shape(ctx, args[0])
        dt = kwargs.get('dtype', args[1] if len(args) > 1 else None)
        kind = 'int' if _is_int_dtype(dt) else 'real'
        v = ONE if name == 'ones' else ZERO
        b = Box(A.const_arr(shape, v, kind))
        b.cur.origin = lineno
        b.base_zero = (name != 'ones')
        return b
    if name in ('array', 'asarray'):
        x = args[0]
        if is_arraylike(x):
            a = snap(x)
            dt = kwargs.get('dtype', args[1] if len(args) > 1 else None)
            want = a.kind if dt is None else ('int' if _is_int_dtype(dt) else 'real')
            if name == 'asarray' and isinstance(x, (Box, View)) and want == a.kind:
                return x            # no conversion needed: the very same array (an alias, not a copy)
            if want == 'int' and a.kind == 'real':
                return Box(Arr(a.shape, lambda idx: A._trunc(a.at(idx)), 'int', tag=a.tag, origin=lineno))
            return Box(Arr(a.shape, a.fn, want, tag=a.tag, origin=lineno, segs=a.segs, affine=a.affine if want == a.kind else None))
        if isinstance(x, (list, tuple)):
            arr = A.list_to_arr(list(x))
            dt = kwargs.get('dtype')
            if _is_int_dtype(dt):
                arr.kind = 'int'
            return Box(arr)
        if isinstance(x, (Rat, bool)):
            return Box(snap(x))
        from .interp import AForeign
        if isinstance(x, (AForeign, ASparse)):
            return Box(snap(Rat.atom(('foreign', getattr(x, 'kind', 'sparse')))))
        raise AnalysisError(f"np.{name} of {x!r}")
    if name == 'copy':
        if isinstance(args[0], Box) and A.is_flatvec(args[0]):
            return A._clone_vec(args[0])
        a = snap(args[0])
        return Box(Arr(a.shape, a.fn, a.kind, tag=a.tag, origin=lineno, segs=a.segs, affine=a.affine, label=a.label if A.is_flatvec(a) else None))
    if name == 'atleast_1d':
        def one(x):
            if isinstance(x, (Rat, bool)):
                return Box(A.list_to_arr([R(x)]))
            if is_arraylike(x):
                a_ = snap(x)
                if a_.ndim == 0:
                    return Box(A.list_to_arr([a_.at(())]))
                return x                    # already at least 1-d: the very same array
            raise AnalysisError(f"np.atleast_1d of {type(x).__name__}")
        if len(args) == 1:
            return one(args[0])
        return [one(x) for x in args]
    if name == 'hstack':
        pieces = args[0]
        if not isinstance(pieces, (list, tuple)):
            raise AnalysisError("np.hstack of a non-sequence")
        return Box(A.hstack(ctx, list(pieces), origin=lineno))
    if name == 'tile':
        return Box(A.tile(ctx, args[0], args[1], origin=lineno))
    if name == 'repeat':
        # np.repeat(a, k, axis=n) along an axis of length one is a broadcast stretch of that axis (== np.tile); repeating the
        # elements of a longer axis needs floor division of indices and is not modelled
        a_ = snap(args[0])
        ax = kwargs.get('axis', args[2] if len(args) > 2 else None)
        if ax is None:
            raise AnalysisError("np.repeat without axis (element-wise repetition of the flattened array)")
        n = R(ax).as_int()
        if n < 0:
            n += a_.ndim
        if not (0 <= n < a_.ndim):
            raise AbstractRaise('AxisError', 'axis out of bounds', lineno)
        if not (a_.shape[n] - 1).is_zero():
            raise AnalysisError("np.repeat along an axis longer than one")
        reps = tuple(R(args[1]) if k == n else ONE for k in range(a_.ndim))
        return Box(A.tile(ctx, a_, reps, origin=lineno))
    if name == 'broadcast_to':
        a_ = snap(args[0])
        shape = A.to_shape(ctx, args[1])
        full = A.broadcast_shapes(ctx, [a_.shape, shape])
        if len(full) != len(shape) or any(not (x - y).is_zero() for x, y in zip(full, shape)):
            raise AbstractRaise('ValueError', 'operands could not be broadcast together with remapped shapes', lineno)
        return Box(Arr(tuple(shape), lambda idx: a_.at(A.bcast_index(a_.shape, idx)), a_.kind, origin=lineno, root=a_.root))
    if name == 'linspace' and len(args) >= 3 and not kwargs:
        lo, hi, n = R(args[0]), R(args[1]), R(args[2])
        if (n - 1).is_zero():
            return Box(A.const_arr((ONE,), lo))
        step = (hi - lo) / (n - 1)
        return Box(Arr((n,), lambda idx: lo + idx[0] * step, 'real', origin=lineno))
    if name == 'outer' and len(args) == 2 and not kwargs:
        a_, b_ = A.ravel_arr(ctx, snap(args[0])), A.ravel_arr(ctx, snap(args[1]))
        return Box(Arr((a_.shape[0], b_.shape[0]), lambda idx: a_.at((idx[0],)) * b_.at((idx[1],)),
                       'int' if a_.kind == b_.kind == 'int' else 'real', origin=lineno))
    if name == 'flip' and len(args) == 1 and not kwargs:
        a_ = snap(args[0])
        if a_.ndim != 1:
            raise AnalysisError("np.flip of an n-D array")
        n_ = a_.shape[0]
        return Box(Arr((n_,), lambda idx: a_.at((n_ - 1 - idx[0],)), a_.kind, origin=lineno))
    if name == 'roll' and len(args) == 2 and not kwargs:
        a_ = snap(args[0])
        k_ = R(args[1])
        if a_.ndim != 1 or not k_.is_const():
            raise AnalysisError("np.roll: only a constant shift of a 1-D array is modelled")
        n_ = a_.shape[0]
        kk = int(k_.const_value())

        def rl(idx):
            j = idx[0] - kk
            if ctx.le(ZERO, j) and ctx.lt(j, n_):
                return a_.at((j,))
            return a_.at((j + n_,)) if kk > 0 else a_.at((j - n_,))
        return Box(Arr((n_,), rl, a_.kind, origin=lineno))
    if name == 'clip' and len(args) == 3 and not kwargs:
        return call_np(interp, 'minimum', [call_np(interp, 'maximum', [args[0], args[1]], {}, lineno), args[2]], {}, lineno)
    if name == 'stack':
        pieces = args[0]
        ax = kwargs.get('axis', args[1] if len(args) > 1 else ZERO)
        if not isinstance(pieces, (list, tuple)) or not pieces or not (isinstance(ax, Rat) and ax.is_const()):
            raise AnalysisError("np.stack: a literal sequence of arrays and a constant axis are required")
        arrs = [snap(p_) for p_ in pieces]
        nd = arrs[0].ndim
        for a_ in arrs[1:]:
            if a_.ndim != nd or any(not (x - y).is_zero() for x, y in zip(a_.shape, arrs[0].shape)):
                raise AbstractRaise('ValueError', 'all input arrays must have the same shape', lineno)
        axis = int(ax.const_value())
        if axis < 0:
            axis += nd + 1
        if not 0 <= axis <= nd:
            raise AbstractRaise('AxisError', 'axis out of bounds', lineno)
        shape = list(arrs[0].shape)
        shape.insert(axis, Rat.const(len(arrs)))

        def stk(idx):
            k = idx[axis]
            if not k.is_const():
                raise AnalysisError("np.stack result read at a symbolic position along the stacking axis")
            return arrs[int(k.const_value())].at(tuple(idx[:axis]) + tuple(idx[axis + 1:]))
        kind = 'int' if all(a_.kind == 'int' for a_ in arrs) else ('bool' if all(a_.kind == 'bool' for a_ in arrs) else 'real')
        return Box(Arr(tuple(shape), stk, kind, origin=lineno))
    if name == 'concatenate':
        pieces = args[0]
        ax = kwargs.get('axis', args[1] if len(args) > 1 else ZERO)
        if not isinstance(pieces, (list, tuple)):
            raise AnalysisError("np.concatenate of a non-sequence")
        arrs = [snap(p_) for p_ in pieces]
        if all(a_.ndim == 1 for a_ in arrs) and (ax is None or (isinstance(ax, Rat) and ax.is_zero())):
            return Box(A.hstack(ctx, list(pieces), origin=lineno))
        if all(a_.ndim >= 2 for a_ in arrs) and isinstance(ax, Rat) and ax.is_const() and ax.const_value() == 1:
            return Box(A.hstack(ctx, list(pieces), origin=lineno))
        raise AnalysisError("np.concatenate: only 1-D pieces (axis 0) or axis=1 of n-D pieces are modelled")
    if name == 'append' and len(args) == 2 and not kwargs:
        return Box(A.flat_concat(ctx, [A.ravel_arr(ctx, snap(args[0])), A.ravel_arr(ctx, snap(args[1]))], lineno))
    if name in ('zeros_like', 'ones_like', 'empty_like', 'full_like', 'full'):
        if name == 'full':
            shape = A.to_shape(ctx, args[0])
            v = R(args[1])
            dt = kwargs.get('dtype')
            kind = 'int' if _is_int_dtype(dt) else 'real' if dt is not None else A.scalar_kind(v)
        else:
            src = snap(args[0])
            shape = src.shape
            v = ONE if name == 'ones_like' else (R(args[1]) if name == 'full_like' else ZERO)
            dt = kwargs.get('dtype')
            kind = 'int' if _is_int_dtype(dt) else 'real' if dt is not None else src.kind     # *_like inherits the dtype
            if kind == 'int':
                v = A._trunc(v)
        b = Box(A.const_arr(shape, v, kind))
        b.cur.origin = lineno
        b.base_zero = v.is_zero()
        return b
    if name in ('add', 'subtract', 'multiply', 'divide', 'true_divide', 'power') and len(args) == 2 and not kwargs:
        op = {'add': ast.Add, 'subtract': ast.Sub, 'multiply': ast.Mult, 'divide': ast.Div, 'true_divide': ast.Div, 'power': ast.Pow}[name]()
        return interp.binop(op, args[0], args[1], lineno)
    if name == 'negative' and len(args) == 1:
        return interp.binop(ast.Mult(), Rat.const(-1), args[0], lineno)
    if name == 'square' and len(args) == 1:
        return interp.binop(ast.Mult(), args[0], args[0], lineno)
    if name == 'reciprocal' and len(args) == 1:
        return interp.binop(ast.Div(), ONE, args[0], lineno)
    if name == 'ravel' and len(args) == 1 and not kwargs:
        return Box(A.ravel_arr(ctx, snap(args[0])))
    if name == 'transpose' and len(args) == 1 and not kwargs:
        return Box(A.transpose(ctx, snap(args[0])))
    if name == 'squeeze' and len(args) == 1 and not kwargs:
        if isinstance(args[0], Rat):
            return args[0]
        a = snap(args[0])
        keep = [k for k, n in enumerate(a.shape) if not (n.is_const() and n.const_value() == 1)]
        if len(keep) == a.ndim:
            return args[0]
        for k, n in enumerate(a.shape):
            if not n.is_const() and ctx.eq(n, ONE) is not False:
                raise AnalysisError("np.squeeze of an axis whose length may be 1")

        def sq(idx):
            full = [ZERO] * a.ndim
            for j, k in enumerate(keep):
                full[k] = idx[j]
            return a.at(tuple(full))
        return _view_of(args[0], Box(Arr(tuple(a.shape[k] for k in keep), sq, a.kind, origin=lineno)))
    if name == 'atleast_1d' and len(args) == 1:
        a = snap(args[0])
        return args[0] if a.ndim >= 1 else Box(A.reshape(ctx, a, (ONE,), origin=lineno))
    if name in ('mod', 'remainder', 'fmod') and len(args) == 2:
        def md(x, y):
            if x.is_const() and y.is_const() and y.const_value() != 0 and name != 'fmod':
                return Rat.const(x.const_value() % y.const_value())
            return Rat.atom(('fn2', name, x, y))
        if all(isinstance(a_, Rat) for a_ in args):
            return md(*args)
        return Box(A.elementwise(ctx, md, [args[0], args[1]], origin=lineno))
    if name == 'diff':
        a = snap(args[0])
        if a.ndim != 1 or len(args) > 1 or kwargs:
            raise AnalysisError("np.diff: only the 1-D first difference is modelled")
        hi = A.index_arr(ctx, a, (Sl(ONE, None),))
        lo = A.index_arr(ctx, a, (Sl(None, R(-1)),))
        return Box(A.elementwise(ctx, lambda x, y: x - y, [hi, lo], origin=lineno))
    if name == 'pad':
        a = snap(args[0])
        width = args[1] if len(args) > 1 else kwargs.get('pad_width')
        mode = str(kwargs.get('mode', args[2] if len(args) > 2 else 'constant'))
        if not (isinstance(width, Rat) and width.is_const() and width.const_value() == 1):
            raise AnalysisError("np.pad: only a pad width of one element per side is modelled")
        if a.ndim > 1:
            if mode != 'constant' or 'constant_values' in kwargs:
                raise AnalysisError("np.pad of an n-D array: only the default zero padding is modelled")
            b = Box(A.const_arr(tuple(n + 2 for n in a.shape), ZERO, a.kind))       # np.pad keeps the dtype of its input
            b.cur.origin = lineno
            A.assign_index(ctx, b, tuple(Sl(ONE, R(-1)) for _ in a.shape), a, lineno)
            b.log = []
            return b
        if a.ndim != 1:
            raise AnalysisError("np.pad of a 0-d array")
        first = lambda k: A.index_arr(ctx, a, (Sl(R(k), R(k + 1)),))
        last = lambda k: A.index_arr(ctx, a, (Sl(R(-k - 1), R(-k) if k else None),))
        if mode == 'edge' or mode == 'symmetric':
            l, r = first(0), last(0)
        elif mode == 'reflect':
            if a.shape[0].is_const() and a.shape[0].const_value() == 1:
                l, r = first(0), last(0)        # numpy: a singleton axis is extended by its edge value (legacy behaviour)
            else:
                l, r = first(1), last(1)
        elif mode == 'wrap':
            l, r = last(0), first(0)
        elif mode == 'constant':
            cv = kwargs.get('constant_values', ZERO)
            if not isinstance(cv, Rat):
                raise AnalysisError("np.pad: constant_values must be a scalar")
            l = r = A.const_arr((ONE,), cv, a.kind if a.kind == 'int' and A.scalar_kind(cv) == 'int' else 'real')
        else:
            raise AnalysisError(f"np.pad mode {mode!r} is not modelled")
        return Box(A.hstack(ctx, [l, a, r], origin=lineno))
    if name == 'reshape':
        order = kwargs.get('order', args[2] if len(args) > 2 else 'C')
        return _view_of(args[0], Box(A.reshape(ctx, args[0], args[1], origin=lineno, order=str(order))))
    if name in ('abs', 'absolute', 'sin', 'cos', 'tan', 'exp', 'log', 'sign', 'sqrt'):
        nm = 'abs' if name == 'absolute' else name
        x = args[0]
        if isinstance(x, AObj):
            # abs(CellVariable) etc.
            m = interp.sm.find_method(x.cls, '__abs__') if nm == 'abs' else None
            if m:
                return interp.call_function(m, [x], self_obj=x)
            raise AnalysisError(f"np.{name} on object")
        if isinstance(x, (Rat, bool)):
            return A.opaque_fn(nm, R(x) if not isinstance(x, bool) else Rat.const(int(x)))
        return Box(A.elementwise(ctx, lambda v: A.opaque_fn(nm, v), [x], origin=lineno))
    if name in ('minimum', 'maximum'):
        nm = 'min' if name == 'minimum' else 'max'

        def f(x, y):
            if x.is_const() and y.is_const():
                return Rat.const(min(x.const_value(), y.const_value()) if nm == 'min' else max(x.const_value(), y.const_value()))
            return Rat.atom(('fn2', nm, x, y))
        if all(isinstance(a, Rat) for a in args[:2]):
            return f(args[0], args[1])
        return Box(A.elementwise(ctx, f, [args[0], args[1]], origin=lineno))
    if name in ('logical_and', 'logical_or'):
        def g(x, y):
            bx = _to_bool01(x)
            by = _to_bool01(y)
            return bx * by if name == 'logical_and' else 1 - (1 - bx) * (1 - by)
        return Box(A.elementwise(ctx, g, [args[0], args[1]], kind='bool', origin=lineno))
    if name in ('isclose', 'allclose'):
        # tolerance predicates: opaque 0/1 atoms; neither outcome implies an exact relation between the operands.  The
        # tolerances are part of the key (rtol / atol literal or default), so that the units domain can look at them.
        rtol = kwargs.get('rtol', args[2] if len(args) > 2 else Rat.const(Fraction(1, 100000)))
        atol = kwargs.get('atol', args[3] if len(args) > 3 else Rat.const(Fraction(1, 100000000)))
        def _sample(v):
            # a representative element of an operand, for the units domain (C17.H6)
            if isinstance(v, (Rat, bool)):
                return R(v)
            try:
                a_ = snap(v)
                return a_.at(tuple(ZERO for _ in a_.shape))
            except Exception:
                return None
        def _event(key):
            interp.events.append(('tolpred', name, _sample(args[0]), _sample(args[1]), R(rtol), R(atol), interp.cur_file, lineno, key))
        if name == 'isclose':
            def ic(x, y):
                return Rat.atom(('tolpred', 'isclose', x, y, R(rtol), R(atol)))
            if all(isinstance(a, (Rat, bool)) for a in args[:2]):
                _event(('tolpred', 'isclose', R(args[0]), R(args[1]), R(rtol), R(atol)))
                return ic(R(args[0]), R(args[1]))
            _event(None)
            return Box(A.elementwise(ctx, ic, [args[0], args[1]], kind='bool', origin=lineno))
        _event(('tolpred', 'allclose', ('line', interp.cur_file, lineno), R(rtol), R(atol)))
        return Rat.atom(('tolpred', 'allclose', ('line', interp.cur_file, lineno), R(rtol), R(atol)))
    if name == 'where':
        if len(args) != 3:
            raise AnalysisError("np.where with one argument")

        def wh(c, x, y):
            c = _to_bool01(c)
            if c.is_const():
                return x if c.const_value() != 0 else y
            return c * x + (1 - c) * y
        if all(isinstance(a, (Rat, bool)) for a in args):
            return wh(*[R(a) if not isinstance(a, bool) else Rat.const(int(a)) for a in args])
        return Box(A.elementwise(ctx, wh, list(args), origin=lineno))
    if name == 'errstate':
        return None
    if name == 'arange':
        if len(args) == 1:
            return Box(A.arange_arr(ZERO, R(args[0])))
        return Box(A.arange_arr(R(args[0]), R(args[1])))
    if name == 'size':
        x = args[0]
        if isinstance(x, Rat):
            return ONE
        return snap(x).size()
    if name == 'ndim':
        # np.ndim(x) == np.asarray(x).ndim: python numbers are 0-d, lists / tuples count their nesting depth
        x = args[0]
        if isinstance(x, (Rat, bool)):
            return ZERO
        if isinstance(x, ASparse):
            return Rat.const(2)
        if isinstance(x, (list, tuple)):
            d, y = 0, x
            while isinstance(y, (list, tuple)):
                d += 1
                if not y:
                    break
                y = y[0]
            if is_arraylike(y):
                d += snap(y).ndim
            return Rat.const(d)
        if is_arraylike(x):
            return Rat.const(snap(x).ndim)
        if x is None or isinstance(x, (str, dict)) or type(x).__name__ in ('AObj', 'OpaqueFn', 'AFuncRef', 'AForeign'):
            return ZERO                      # np.asarray of an arbitrary object: a 0-d object array
        raise AnalysisError(f"np.ndim of {x!r}")
    if name in ('all', 'any'):
        x = args[0]
        if isinstance(x, bool):
            return x
        a = snap(x)
        cs = a.concrete_shape()
        if cs is None:
            # a quantified predicate over symbolic data: an opaque 0/1 atom per call site; a branch on it is explored both ways
            # (interp.JobFork), see there for what is reported on the outcome that pins the data
            if A.masked_of(a):
                raise AnalysisError(f"np.{name} over a boolean-mask selection")
            # 1-D arrays of symbolic length: when the element is the same constant truth value at every index class
            # (first three, generic, last three) the predicate is decided (e.g. dX == dX[0] on equispaced symbolic faces)
            if a.ndim == 1 and a.segs is None:
                try:
                    n_ = a.shape[0]
                    cnt = interp.__dict__.setdefault('_qsym', [0])
                    cnt[0] += 1
                    from .alg import Poly
                    tq = ctx.bound_symbol(('q', cnt[0]), Poly.const(3), (n_ - 4).as_poly())
                    classes = [ZERO, ONE, Rat.const(2), tq, n_ - 3, n_ - 2, n_ - 1]
                    vs = [a.at((c,)) for c in classes]
                    if all(v.is_const() for v in vs):
                        truths = [v.const_value() != 0 for v in vs]
                        if all(truths):
                            return True
                        if not any(truths):
                            return False
                        return (name == 'any')       # mixed constants: any is true, all is false
                except (AnalysisError, AbstractRaise):
                    pass
            return Rat.atom(('qpred', name, ('line', interp.cur_file, lineno)))
        import itertools
        vals = []
        for idx in itertools.product(*[range(n) for n in cs]):
            v = a.at(tuple(Rat.const(i) for i in idx))
            if not v.is_const():
                return Rat.atom(('qpred', name, ('line', interp.cur_file, lineno)))
            vals.append(v.const_value() != 0)
        return all(vals) if name == 'all' else any(vals)
    if name == 'isscalar':
        x = args[0]
        return isinstance(x, (Rat, bool, str))
    if name == 'finfo':
        from .interp import AForeign
        return AForeign('finfo', ('eps', 'tiny', 'smallest_normal', 'resolution', 'max', 'min'))
    if name in ('isinf', 'isnan', 'isfinite', 'isneginf', 'isposinf'):
        # the properties quantify over finite data: symbolic values are finite real numbers (recorded as an assumption)
        v = Rat.const(1 if name == 'isfinite' else 0)
        x = args[0]
        if isinstance(x, (Rat, bool)):
            return name == 'isfinite'
        a_ = snap(x)
        return Box(Arr(a_.shape, lambda idx: v, 'bool', origin=lineno))
    if name == 'prod':
        x = args[0]
        if isinstance(x, Rat):
            return x
        a_ = snap(x)
        cs = a_.concrete_shape()
        if cs is None or kwargs or len(args) > 1:
            raise AnalysisError("np.prod over an array of symbolic shape / along an axis")
        import itertools
        out = ONE
        for idx in itertools.product(*[range(n) for n in cs]):
            out = out * a_.at(tuple(Rat.const(i) for i in idx))
        return out
    if name in ('max', 'min', 'amax', 'amin', 'sum'):
        x = args[0]
        if isinstance(x, Rat):
            return x
        a = snap(x)
        if a.size().is_const() and a.size().const_value() == 1:
            if a.segs is not None:
                sg = [s_ for s_ in a.segs if not s_.size().is_zero()][0]
                return sg.at(tuple(ZERO for _ in sg.shape))
            return a.at(tuple(ZERO for _ in a.shape))
        key = ('reduce', name, interp.cur_file, lineno)
        interp.reductions = getattr(interp, 'reductions', {})
        interp.reductions[key] = a
        return Rat.atom(key)
    if name == 'ix_':
        out = []
        n = len(args)
        for k, seq in enumerate(args):
            a = snap(list(seq) if isinstance(seq, tuple) else seq)
            key = tuple((Sl(None, None) if j == k else A.NEWAXIS) for j in range(n))
            out.append(A.index_arr(ctx, a, key))
        return tuple(out)
    if name == 'copyto':
        dst, src = args[0], args[1]
        if isinstance(dst, Box):
            interp._note_write(dst, lineno)
            s = snap(src)
            A.broadcast_shapes(ctx, [dst.cur.shape, s.shape])
            d = dst.cur
            dst.cur = Arr(d.shape, lambda idx: s.at(A.bcast_index(s.shape, idx)), d.kind, origin=lineno)
            dst.log.append((('copyto',), s, lineno))
            return None
        raise AnalysisError("np.copyto into a non-variable")
    if name == 'float64' or name == 'float' or name == 'int64':
        return R(args[0])
    raise AnalysisError(f"np.{name} is outside the modelled numpy subset (line {lineno})")


def _to_bool01(x: Rat):
    if x.is_const():
        return Rat.const(1 if x.const_value() != 0 else 0)
    from .alg import atom_key, is_indicator
    # indicators are already 0/1
    if not x.den and all(is_indicator(a) for a in x.num.atoms()):
        return x
    return 1 - A.indicator('==', x)


class ADtype:
    """value of <array>.dtype: only its kind (int / real / bool) is tracked"""
    def __init__(self, kind):
        self.kind = kind

    def __eq__(self, o):
        return isinstance(o, ADtype) and o.kind == self.kind

    def __hash__(self):
        return hash(('dtype', self.kind))


def _view_of(src, box):
    """numpy returns a view of contiguous storage for reshape / ravel: remember whose memory the result shares, so that an
    in-place store into it is attributed to the owner (the values are a snapshot; only the effect is tracked)"""
    if isinstance(src, (Box, View)):
        box.attrs['shares'] = src
    if isinstance(src, Box) and src.base_zero and not src.log:
        box.base_zero = True            # an untouched np.zeros(...) stays all-zero under reshape / ravel
    return box


def _is_int_dtype(dt):
    from .interp import Builtin
    if dt is None:
        return False
    if isinstance(dt, ADtype):
        return dt.kind == 'int'
    if isinstance(dt, Builtin) and dt.name == 'int':
        return True
    if isinstance(dt, str) and dt.startswith('int'):
        return True
    return False


# ----------------------------------------------------------------------------------------------
def call_method(interp, obj, name, args, kwargs, lineno):
    from .interp import ASparse
    ctx = interp.ctx
    if isinstance(obj, ASparse):
        if name in ('copy', 'tocsr', 'tocoo', 'tocsc', 'asformat'):
            # format conversions return a new matrix with the same entries (duplicates summed - the entry list is already
            # read as a sum); copy likewise
            return ASparse(list(obj.entries), obj.shape, list(obj.issues))
        if name == 'sum_duplicates':
            return None
        raise AnalysisError(f"sparse method {name}")
    if isinstance(obj, Rat):
        if name == 'item':
            return obj
        raise AnalysisError(f"scalar method {name}")
    if is_arraylike(obj):
        a = snap(obj)
        if name in ('ravel', 'flatten'):
            r = Box(A.ravel_arr(ctx, a))
            if name == 'flatten' and isinstance(obj, Box) and obj.base_zero and not obj.log:
                r.base_zero = True
            return _view_of(obj, r) if name == 'ravel' else r
        if name == 'copy':
            if isinstance(obj, Box) and A.is_flatvec(obj):
                return A._clone_vec(obj)
            return Box(Arr(a.shape, a.fn, a.kind, tag=a.tag, origin=lineno, segs=a.segs, affine=a.affine, label=a.label if A.is_flatvec(a) else None))
        if name == 'item':
            sz = a.size()
            if not (sz.is_const() and sz.const_value() == 1):
                raise AbstractRaise('ValueError', "can only convert an array of size 1 to a Python scalar", lineno)
            return a.at(tuple(ZERO for _ in a.shape))
        if name == 'reshape':
            shp = args[0] if len(args) == 1 else tuple(args)
            order = kwargs.get('order', 'C')
            return _view_of(obj, Box(A.reshape(ctx, a, shp, origin=lineno, order=str(order))))
        if name in ('sum', 'max', 'min', 'all', 'any'):
            from .npmodel import call_np
            return call_np(interp, name, [a], {}, lineno)
        if name == 'view':
            from .interp import AClassRef
            if args and isinstance(args[0], AClassRef):
                if args[0].name == 'TrackedArray':
                    return interp.tracked_view(obj)
                raise AnalysisError(f"ndarray.view({args[0].name})")
            return obj
        if name == 'astype':
            if _is_int_dtype(args[0] if args else kwargs.get('dtype')) and a.kind == 'real':
                return Box(Arr(a.shape, lambda idx: A._trunc(a.at(idx)), 'int', tag=a.tag))
            return Box(a)
        raise AnalysisError(f"ndarray method {name}")
    if isinstance(obj, list):
        if name in ('append', 'extend', 'insert', 'pop', 'remove', 'clear', 'sort', 'reverse'):
            # a python list handed in by the caller (a term list): record the mutation like a store into input storage
            tag = getattr(interp, 'frozen_lists', {}).get(id(obj))
            if tag:
                interp.events.append(('input-mutated', tag, interp.cur_file, lineno))
        if name == 'append':
            obj.append(args[0])
            return None
        if name == 'extend':
            obj.extend(args[0])
            return None
        if name == 'insert':
            obj.insert(R(args[0]).as_int(), args[1])
            return None
        if name == 'pop':
            return obj.pop(*[R(x).as_int() for x in args[:1]])
        if name == 'clear':
            obj.clear()
            return None
        if name == 'reverse':
            obj.reverse()
            return None
        if name == 'copy':
            return list(obj)
    if isinstance(obj, dict):
        if name == 'get':
            return obj.get(args[0], args[1] if len(args) > 1 else None)
        if name == 'keys':
            return list(obj.keys())
        if name == 'items':
            return list(obj.items())
    if isinstance(obj, str):
        from .interp import AStr
        return AStr('<str>')
    raise AnalysisError(f"method {name} on {type(obj).__name__}")


# ----------------------------------------------------------------------------------------------
def call_builtin(interp, name, args, kwargs, lineno, fr):
    from .interp import (AObj, AClassRef, ATypeRef, ASparse, AFuncRef, NDARRAY, Builtin, AStr, OpaqueFn)
    sm = interp.sm
    if name == 'len':
        x = args[0]
        if isinstance(x, (tuple, list, dict, str)):
            return Rat.const(len(x))
        if is_arraylike(x):
            a = snap(x)
            if a.ndim == 0:
                raise AbstractRaise('TypeError', 'len() of unsized object')
            return a.shape[0]
        raise AbstractRaise('TypeError', f"object of type {type(x).__name__} has no len()")
    if name == 'type':
        return type_of(args[0])
    if name == 'issubclass':
        a, b = args
        return _issub(sm, a, b)
    if name == 'isinstance':
        x, c = args
        return _issub(sm, type_of(x), c)
    if name == 'noop':
        return None
    if name in ('print', 'warn', 'use_solver'):
        if name == 'warn':
            interp.events.append(('warn', interp.cur_file, lineno))
        return None
    if name == 'bool':
        c = interp.truth(args[0])
        if isinstance(c, bool):
            return c
        from . import interp as _I
        if isinstance(c, Rat) and _I.JOB_FORK is not None and interp.fork is None and _I.is_tolpred(c):
            # bool(np.allclose(..)) and the like: decided per job path, exactly as `if np.allclose(..):` is
            return bool(_I._CompoundFork(_I.JOB_FORK).decide(c, f"{interp.cur_file}.py:{lineno}: bool(..)"))
        raise AnalysisError("bool() of a symbolic value")
    if name in ('int', 'float'):
        x = args[0]
        if isinstance(x, bool):
            return Rat.const(int(x))
        if isinstance(x, Rat):
            return x
        if is_arraylike(x):
            a = snap(x)
            if a.size().is_const() and a.size().const_value() == 1:
                return a.at(tuple(ZERO for _ in a.shape))
        raise AnalysisError(f"{name}() of {x!r}")
    if name == 'abs':
        x = args[0]
        if isinstance(x, AObj):
            m = sm.find_method(x.cls, '__abs__')
            if m:
                return interp.call_function(m, [x], self_obj=x)
        if isinstance(x, Rat):
            return A.opaque_fn('abs', x)
        from .npmodel import call_np
        return call_np(interp, 'abs', args, kwargs, lineno)
    if name in ('min', 'max'):
        vals = args[0] if len(args) == 1 and isinstance(args[0], (list, tuple)) else args
        if all(isinstance(v, Rat) and v.is_const() for v in vals):
            f = min if name == 'min' else max
            return Rat.const(f(v.const_value() for v in vals))
        if len(vals) == 2 and all(isinstance(v, Rat) for v in vals):
            return Rat.atom(('fn2', name, vals[0], vals[1]))
        # python min/max on arrays raises (ambiguous truth value) when an element comparison is needed
        if any(is_arraylike(v) and snap(v).ndim > 0 for v in vals):
            raise AbstractRaise('ValueError', 'The truth value of an array with more than one element is ambiguous', lineno)
        raise AnalysisError(f"builtin {name} of symbolic values")
    if name == 'hasattr':
        o, n = args
        if isinstance(o, AObj):
            return (n in o.attrs) or bool(sm.find_method(o.cls, n)) or bool(sm.find_getter(o.cls, n))
        if is_arraylike(o):
            return n in ('ndim', 'shape', 'size', '__neg__', 'ravel', 'item')
        if isinstance(o, ASparse):
            return n in ('__neg__', 'ndim', 'shape', 'nnz', 'dtype', 'T', 'toarray', 'tocsr', 'size', 'data', 'indices', 'indptr', 'copy')
        if isinstance(o, Rat):
            return n in ('__neg__', 'real', 'imag', 'conjugate', '__float__')        # a python number (no ndim / shape)
        from .interp import AForeign
        if isinstance(o, AForeign):
            return n in o.has
        return False
    if name == 'getattr':
        o, n = args[0], args[1]
        try:
            return interp.get_attr(o, n)
        except AbstractRaise as e:
            if e.exc == 'AttributeError' and len(args) > 2:
                return args[2]
            raise
    if name in ('all', 'any') and len(args) == 1 and not kwargs:
        # python's builtins over a concrete sequence (a generator expression is evaluated to a list by the interpreter)
        seq = args[0]
        if is_arraylike(seq):
            return call_np(interp, name, [seq], {}, lineno)
        if not isinstance(seq, (list, tuple)):
            raise AnalysisError(f"builtin {name} over {type(seq).__name__}")
        acc = ONE
        for x in seq:
            c = interp.truth(x)
            if isinstance(c, bool):
                if name == 'any' and c:
                    return True
                if name == 'all' and not c:
                    return False
                continue
            acc = acc * ((1 - c) if name == 'any' else c)
        if acc.is_const():
            return name == 'all'
        return (1 - acc) if name == 'any' else acc
    if name == 'slice':
        if len(args) == 1:
            return A.Sl(None, args[0])
        if len(args) == 3 and args[2] is not None and not (isinstance(args[2], Rat) and (args[2] - 1).is_zero()):
            raise AnalysisError("slice with a step")
        return A.Sl(args[0], args[1])
    if name == 'id':
        return Rat.const(id(args[0]))         # identity of the abstract object (stable while it is alive, like CPython's)
    if name == 'dict' and not args and not kwargs:
        return {}
    if name == 'set' and not args:
        return set()
    if name == 'deepcopy':
        m = args[1] if len(args) > 1 else kwargs.get('memo')
        _DEEPCOPY_INTERP.append(interp)
        try:
            return deep_copy(args[0], m if isinstance(m, dict) else {})
        finally:
            _DEEPCOPY_INTERP.pop()
    if name == 'copy' and len(args) == 1:
        return shallow_copy(interp, args[0])
    if name == 'setattr' and len(args) == 3:
        interp.set_attr(args[0], str(args[1]), args[2], lineno)
        return None
    if name == 'csr_array':
        return csr_array(interp, args, kwargs, lineno)
    if name == 'spsolve':
        hook = getattr(interp, 'solver_hook', None)
        if hook is None:
            raise AnalysisError("spsolve is not evaluated by the stencil interpreter")
        return hook('spsolve', args, kwargs)
    if name in ('tuple', 'list'):
        x = args[0] if args else ()
        if isinstance(x, (tuple, list)):
            return tuple(x) if name == 'tuple' else list(x)
        if is_arraylike(x):
            a = snap(x)
            n = a.shape[0].as_int()
            vals = [a.at((Rat.const(i),)) for i in range(n)]
            return tuple(vals) if name == 'tuple' else vals
        raise AnalysisError(f"{name}() of {x!r}")
    if name == 'range':
        if len(args) == 1:
            return Box(A.arange_arr(ZERO, R(args[0])))
        return Box(A.arange_arr(R(args[0]), R(args[1])))
    if name in ('enumerate', 'zip'):
        seqs = []
        for x in (args[:1] if name == 'enumerate' else args):
            if is_arraylike(x):
                a = snap(x)
                if a.ndim != 1 or not a.shape[0].is_const():
                    raise AnalysisError(f"{name} over an array of symbolic length")
                x = [a.at((Rat.const(i),)) for i in range(a.shape[0].as_int())]
            if isinstance(x, dict):
                x = list(x)
            if not isinstance(x, (tuple, list)):
                raise AnalysisError(f"{name} over {type(x).__name__}")
            seqs.append(list(x))
        if name == 'enumerate':
            start = int(R(kwargs.get('start', args[1] if len(args) > 1 else ZERO)).const_value()) if (len(args) > 1 or kwargs) else 0
            return [(Rat.const(start + i), v) for i, v in enumerate(seqs[0])]
        return [tuple(t) for t in zip(*seqs)]
    if name == 'str':
        return AStr('<str>')
    if name == 'vars':
        o = args[0]
        if isinstance(o, AObj):
            return dict(o.attrs)
        return {}
    if name == 'sum':
        raise AnalysisError("builtin sum")
    if name.startswith('ext:'):
        raise AnalysisError(f"call of external function {name[4:]} is not modelled (line {lineno})")
    if name in ('Exception', 'TypeError', 'ValueError', 'AttributeError', 'NotImplementedError', 'IndexError'):
        return AObj('exc:' + name)
    raise AnalysisError(f"builtin {name} is not modelled")


def type_of(x):
    from .interp import (AObj, AClassRef, ATypeRef, ASparse, NDARRAY, AFuncRef)
    if isinstance(x, AObj):
        return AClassRef(x.cls)
    if isinstance(x, (Box, View)) and x.attrs.get('tracked'):
        return AClassRef('TrackedArray')
    if is_arraylike(x):
        return NDARRAY
    if isinstance(x, bool):
        return ATypeRef('bool')
    if isinstance(x, Rat):
        if x.is_const() and x.const_value().denominator == 1:
            return ATypeRef('number')
        return ATypeRef('number')
    if isinstance(x, tuple):
        return ATypeRef('tuple')
    if isinstance(x, list):
        return ATypeRef('list')
    if isinstance(x, dict):
        return ATypeRef('dict')
    if isinstance(x, str):
        return ATypeRef('str')
    if x is None:
        return ATypeRef('NoneType')
    if isinstance(x, ASparse):
        return ATypeRef('csr_array')
    if type(x).__name__ == 'AForeign':
        return ATypeRef(x.kind)
    return ATypeRef(type(x).__name__)


def _issub(sm, a, b):
    from .interp import AClassRef, ATypeRef, Builtin, NDARRAY
    if isinstance(b, (tuple, list)):
        return any(_issub(sm, a, c) for c in b)
    if isinstance(b, Builtin):
        nm = {'tuple': 'tuple', 'list': 'list', 'int': 'number', 'float': 'number', 'bool': 'bool', 'str': 'str',
              'dict': 'dict', 'csr_array': 'csr_array'}.get(b.name)
        if nm is None:
            raise AnalysisError(f"isinstance against {b.name}")
        return isinstance(a, ATypeRef) and a.name == nm
    if isinstance(b, ATypeRef):
        if b.name == 'ndarray' and isinstance(a, AClassRef) and a.name == 'TrackedArray':
            return True
        return isinstance(a, ATypeRef) and a.name == b.name
    if isinstance(b, AClassRef):
        if isinstance(a, ATypeRef):
            return False
        if isinstance(a, AClassRef):
            return sm.is_subclass(a.name, b.name)
    raise AnalysisError(f"issubclass({a!r}, {b!r})")


_DEEPCOPY_INTERP = []          # the interpreter running the current deepcopy (for user-defined __deepcopy__ / __copy__)


def shallow_copy(interp, x):
    """copy.copy: a new object of the same class whose attributes are the very same objects; arrays get new storage"""
    from .interp import AObj
    if isinstance(x, AObj):
        cp = interp.sm.find_method(x.cls, '__copy__') if interp.sm.has_cls(x.cls) else None
        if cp is not None:
            return interp.call_function(cp, [x], self_obj=x)
        n = AObj(x.cls)
        n.attrs.update(x.attrs)
        return n
    if isinstance(x, Box):
        b = Box(x.cur)
        b.attrs = dict(x.attrs)
        b.attrs.pop('shares', None)
        b.base_zero = x.base_zero
        b.log = list(x.log)
        return b
    if isinstance(x, View):
        return Box(x.snap())
    if isinstance(x, list):
        return list(x)
    if isinstance(x, dict):
        return dict(x)
    return x


def deep_copy(x, memo):
    """copy.deepcopy.  `memo` maps identities of originals to their copies; a dictionary handed in by the analysed code
    (deepcopy(x, memo)) is used as python uses it - keyed by id(original), consulted before copying and filled while copying -
    so a memo that outlives the call (a mutable default argument) hands out the earlier copies again"""
    from .interp import AObj

    def key(o):
        return Rat.const(id(o))
    if isinstance(x, AObj):
        if x.id in memo:
            return memo[x.id]
        if key(x) in memo:
            return memo[key(x)]
        it = _DEEPCOPY_INTERP[0] if _DEEPCOPY_INTERP else None
        if it is not None and it.sm.has_cls(x.cls):
            dc = it.sm.find_method(x.cls, '__deepcopy__')
            if dc is not None:
                # the class defines its own deep copy: run it (python hands it the memo dictionary)
                n = it.call_function(dc, [x, memo], self_obj=x)
                memo[x.id] = n
                return n
        n = AObj(x.cls)
        memo[x.id] = n
        memo[key(x)] = n
        for k, v in x.attrs.items():
            n.attrs[k] = deep_copy(v, memo)
        return n
    if isinstance(x, Box):
        k = ('box', x.id)
        if k in memo:
            return memo[k]
        if key(x) in memo:
            return memo[key(x)]
        b = Box(x.cur)
        b.attrs = dict(x.attrs)
        b.attrs.pop('shares', None)
        b.base_zero = x.base_zero
        b.log = list(x.log)             # flat vectors keep their scattered entries in the log (arrays._clone_vec)
        memo[k] = b
        memo[key(x)] = b
        return b
    if isinstance(x, View):
        return Box(x.snap())
    if isinstance(x, list):
        return [deep_copy(v, memo) for v in x]
    if isinstance(x, tuple):
        return tuple(deep_copy(v, memo) for v in x)
    if isinstance(x, dict):
        return {k: deep_copy(v, memo) for k, v in x.items()}
    return x


# ----------------------------------------------------------------------------------------------
# csr_array((vals, (rows, cols)), shape=...)
# ----------------------------------------------------------------------------------------------
def _squeeze(a: Arr) -> Arr:
    keep = [k for k, d in enumerate(a.shape) if not (d.is_const() and d.const_value() == 1)]
    if len(keep) == a.ndim:
        return a
    nd = a.ndim

    def mp(idx):
        base = [ZERO] * nd
        for r, k in enumerate(keep):
            base[k] = idx[r]
        return tuple(base)
    return Arr([a.shape[k] for k in keep], lambda idx: a.at(mp(idx)), a.kind,
               tag=(lambda idx: a.tag(mp(idx))) if a.tag else None, origin=a.origin, label=a.label)


def _segments_of(interp, x, issues, what, lineno):
    """-> list of ('seg', Arr) or list of ('rng', lo, n, Arr) for scatter-assembled arrays"""
    ctx = interp.ctx
    if isinstance(x, View) and isinstance(x.base, Box) and x.base.log and x.base.base_zero and \
            any(k[0][0] in ('adv', 'basic') for k in x.base.log) and x.base.cur.ndim == 1:
        box = x.base
        key = x.key if isinstance(x.key, tuple) else (x.key,)
        if len(key) != 1 or not isinstance(key[0], Sl):
            raise AnalysisError("csr_array operand: unsupported view of an assembled array")
        lo = R(key[0].lo) if key[0].lo is not None else ZERO
        hi = R(key[0].hi) if key[0].hi is not None else box.cur.shape[0]
        if not lo.is_zero():
            raise AnalysisError("csr_array operand: slice does not start at 0")
        segs = []
        for (kinfo, val, ln) in box.log:
            if kinfo[0] == 'adv':
                adv = kinfo[1]
                if len(adv) != 1:
                    raise AnalysisError("assembled array written with several index arrays")
                ia = adv[0]
                if ia.ndim == 0:
                    segs.append(('rng', ia.at(()), ONE, val, ln))
                elif ia.affine is not None and ia.ndim == 1:
                    segs.append(('rng', ia.affine[1], ia.shape[0], val, ln))
                else:
                    raise AnalysisError("assembled array written through a non-contiguous index array")
            elif kinfo[0] == 'basic':
                c = kinfo[1][0]
                if c[0] == 'eq':
                    segs.append(('rng', c[1], ONE, val, ln))
                else:
                    segs.append(('rng', c[1], c[2] - c[1], val, ln))
            else:
                raise AnalysisError(f"assembled array written by {kinfo[0]}")
        # later identical range replaces earlier
        out = []
        for s in segs:
            dup = [k for k, o in enumerate(out) if (o[1] - s[1]).is_zero() and (o[2] - s[2]).is_zero()]
            if dup:
                issues.append(('X1-overwrite', f"{what}: positions {s[1]}..+{s[2]} written twice (lines {out[dup[0]][4]} and {s[4]}); the first write is lost", s[4]))
                out[dup[0]] = s
            else:
                out.append(s)
        return ('scatter', out, hi)
    a = snap(x)
    if a.segs is not None:
        return ('flat', [s for s in a.segs], a.shape[0])
    if a.ndim == 1:
        lab = a.label
        if lab and lab[0] == 'truncated-flat':
            issues.append(('X1-prefix', f"{what}: prefix slice [0:{a.shape[0]}] of a flat array of length {lab[1]} drops entries", lineno))
            return ('flat', [], a.shape[0])
        return ('flat', [a], a.shape[0])
    if a.ndim == 0:
        return ('flat', [a], ONE)
    raise AbstractRaise('ValueError', f"csr_array: {what} must be one-dimensional", lineno)


def csr_array(interp, args, kwargs, lineno):
    from .interp import ASparse
    ctx = interp.ctx
    if args and isinstance(args[0], (tuple, list)) and len(args[0]) == 2 and all(isinstance(x, Rat) for x in args[0]):
        return ASparse([], tuple(args[0]), [])            # csr_array((n, m)): the empty n x m matrix
    if args and is_arraylike(args[0]) and snap(args[0]).ndim == 1 and snap(args[0]).shape[0].is_const() and snap(args[0]).shape[0].as_int() == 2 and len(args) == 1 and not kwargs:
        a0 = snap(args[0])
        return ASparse([], (a0.at((ZERO,)), a0.at((ONE,))), [])
    if not args or not isinstance(args[0], tuple) or len(args[0]) != 2 or not isinstance(args[0][1], tuple):
        raise AnalysisError("csr_array called in an unsupported form")
    vals, (rows, cols) = args[0]
    shape = kwargs.get('shape', args[1] if len(args) > 1 else None)
    issues = []
    sv = _segments_of(interp, vals, issues, 'values', lineno)
    sr = _segments_of(interp, rows, issues, 'rows', lineno)
    sc = _segments_of(interp, cols, issues, 'cols', lineno)
    entries = []
    kinds = {sv[0], sr[0], sc[0]}
    if kinds == {'flat'}:
        # total lengths must agree
        if not ((sv[2] - sr[2]).is_zero() and (sv[2] - sc[2]).is_zero()):
            issues.append(('X1-length', f"data/row/col arrays have different lengths: {sv[2]}, {sr[2]}, {sc[2]}", lineno))
        n = len(sr[1])
        if len(sv[1]) != n or len(sc[1]) != n:
            if issues:
                pass        # a definite length mismatch was recorded already
            else:
                # equal total length, but the three arrays were put together from different numbers of pieces (e.g. one of them as
                # the ravel of a stacked 2-D array): the element orders may or may not agree - not decidable block by block
                raise AnalysisError(f"csr_array (line {lineno}): data/row/col arrays are concatenated from different numbers of blocks "
                                    f"({len(sv[1])}/{len(sr[1])}/{len(sc[1])}); their element order cannot be compared")
        else:
            for k in range(n):
                v, r, c = _squeeze(sv[1][k]), _squeeze(sr[1][k]), _squeeze(sc[1][k])
                ok = True
                for other, nm in ((v, 'values'), (c, 'cols')):
                    if other.ndim == 0:
                        continue
                    if other.ndim != r.ndim or any(not (x - y).is_zero() for x, y in zip(other.shape, r.shape)):
                        if (other.ndim == 1) != (r.ndim == 1) and (other.size() - r.size()).is_zero():
                            # one side is a plain 1-D array of the right length whose provenance (the ravel of which n-D block?) is
                            # not known: the orders may agree
                            raise AnalysisError(f"csr_array (line {lineno}): block {k}: {nm} is 1-D/{other.ndim}-D while rows are {r.ndim}-D; element order cannot be compared")
                        issues.append(('X1-layout', f"block {k}: {nm} has ravel layout {tuple(map(str, other.shape))} but rows have {tuple(map(str, r.shape))}", lineno))
                        ok = False
                if ok:
                    entries.append(dict(rows=r, cols=c, vals=v, block=lineno, sign=1, seg=k))
    elif kinds == {'scatter'}:
        hi = sv[2]
        allr = sr[1]
        for (tag, lo, n, val, ln) in allr:
            def find(lst):
                for s in lst:
                    if (s[1] - lo).is_zero() and (s[2] - n).is_zero():
                        return s
                return None
            v = find(sv[1])
            c = find(sc[1])
            if v is None or c is None:
                issues.append(('X1-layout', f"positions {lo}..+{n} are written in the row array (line {ln}) but not in the " + ('value' if v is None else 'column') + " array", ln))
                continue
            rfull, cfull, vfull = snap(val), snap(c[3]), snap(v[3])
            if rfull.segs is not None and len(rfull.segs) > 1:
                # one contiguous range filled from a concatenation of several blocks
                nseg = len(rfull.segs)
                okc = cfull.ndim == 0 or (cfull.segs is not None and len(cfull.segs) == nseg)
                okv = vfull.ndim == 0 or (vfull.segs is not None and len(vfull.segs) == nseg)
                if not (okc and okv):
                    issues.append(('X1-layout', f"positions {lo}..+{n}: block structure of rows/cols/values differs", ln))
                    continue
                for k in range(nseg):
                    entries.append(dict(rows=_squeeze(rfull.segs[k]),
                                        cols=_squeeze(cfull if cfull.ndim == 0 else cfull.segs[k]),
                                        vals=_squeeze(vfull if vfull.ndim == 0 else vfull.segs[k]),
                                        block=lineno, sign=1, seg=(ln, k), rng=(lo, n)))
                continue
            r = _squeeze(_seg_arr(val))
            ca = _squeeze(_seg_arr(c[3]))
            va = _squeeze(_seg_arr(v[3]))
            for other, nm in ((va, 'values'), (ca, 'cols')):
                if other.ndim == 0:
                    continue
                if other.ndim != r.ndim or any(not (x - y).is_zero() for x, y in zip(other.shape, r.shape)):
                    issues.append(('X1-layout', f"positions {lo}..+{n}: {nm} layout {tuple(map(str, other.shape))} differs from rows {tuple(map(str, r.shape))}", ln))
            if not (r.size() - n).is_zero() and r.ndim > 0:
                issues.append(('X1-length', f"positions {lo}..+{n}: row block has {r.size()} elements", ln))
            entries.append(dict(rows=r, cols=ca, vals=va, block=lineno, sign=1, seg=ln, rng=(lo, n)))
        # coverage of [0, hi)
        rngs = sorted([(s[1], s[2], s[4]) for s in allr], key=lambda t: _sortkey(ctx, t[0]))
        pos = ZERO
        for (lo, n, ln) in rngs:
            if not (lo - pos).is_zero():
                issues.append(('X1-coverage', f"assembled positions are not contiguous: expected a write at {pos}, found {lo} (line {ln})", ln))
            pos = lo + n
        if not (pos - hi).is_zero():
            # numpy clips a too-long prefix; a too-short one drops entries
            if ctx.sign(hi - pos) == '-':
                issues.append(('X1-prefix', f"prefix [0:{hi}] is shorter than the {pos} assembled entries", lineno))
    else:
        raise AnalysisError("csr_array operands assembled in different styles")
    return ASparse(entries, shape, issues)


def _sortkey(ctx, lo):
    # order ranges by their start under the oracle: use the lower bound of the interval
    p = lo.as_poly()
    iv = ctx.interval(p)
    return (float(iv[0]) if iv[0] != -A.INF else -1e300, str(lo))


def _seg_arr(a):
    a = snap(a)
    if a.segs is not None and len(a.segs) == 1:
        return a.segs[0]
    return a
