"""C01 - closed systems conserve the domain integral.

Decided statically (exact algebra on stencils extracted from the syntax tree, symbolic in the cell
counts, face positions and coefficient fields):

 R0  layout: the three flat arrays of every csr_array agree block by block (else entries are scrambled)
 R1  interior faces: for every face atom alpha between cells L|H and every column c
        V(L)*d(M[L,c])/d(alpha) + V(H)*d(M[H,c])/d(alpha) == 0        (V from <Class>._getCellVolumes)
 R1L locality: row P mentions only coefficient atoms of P's own faces, linearly
 R2  the same for divergenceTerm (vector, linear in F)
 R3  the same for the TVD right-hand side (linear in u; psi/FL atoms opaque, identical on both sides)
 R4  boundary faces: the flux functional equals the interior face functional transplanted to the
     boundary face (ghost cell of the size of the adjacent cell); for upwind with the donor on the
     ghost side replaced by the face average (ghost+inner)/2
 R5  closed systems: the coefficients multiplying a boundary-face diffusivity sum to zero (ghost = inner => no flux);
     advective boundary-face contributions are linear in the wall-normal velocity (R1L), hence vanish with it;
     the periodic-seam half of the statement is C08.A4 (matrix rows) and
 R5p the ghost layer wraps to the opposite side under every flag configuration that makes an axis periodic (both faces or
     one face flagged), so explicitly evaluated fluxes see one face value / gradient on both copies of the seam face
 R6  source terms are cell-local (diagonal matrix / own-cell right-hand side)
 R7  domainIntegral() sums cellvolume*value over the interior cells once
 R8  explicit solver steps: solveExplicitPDE returns old + dt*RHS in every interior cell (so the integral changes by
     dt*sum(V*RHS), which R2/R3 reduce to boundary-face fluxes) and a ghost layer that satisfies the boundary conditions for
     the *new* interior - the boundary-face fluxes of the next step (R4/R5: zero for a closed system) read exactly these ghosts.
     (the implicit step: C04.S1/S6)
"""
from __future__ import annotations
import itertools
from ..alg import Rat, atom_id, atom_key, is_zero, atoms_with_head, fmt_rat
from ..srcmodel import SourceModel, AnalysisError, MESH_CLASSES
from ..arrays import AbstractRaise, R, ZERO, ONE, snap
from ..model import World, AX
from ..interp import ASparse, OpaqueFn
from .. import facts as F

PROP = 'C01'
from . import lemmas as _lemmas
LEMMAS = [_lemmas.PROTOCOL, _lemmas.SOLVE, _lemmas.PERIODIC]
RULES = {
    'R0': 'csr_array data/row/col blocks have identical ravel layout',
    'R1': 'volume-weighted coefficients of one interior face cancel between its two cells',
    'R1L': 'a row only mentions (linearly) coefficient atoms of its own faces',
    'R2': 'divergenceTerm: volume-weighted face contributions cancel',
    'R3': 'TVD RHS: volume-weighted face contributions cancel',
    'R4': 'boundary-face flux functional = transplanted interior functional (upwind: ghost -> face average)',
    'R5': 'no-flux closure: boundary-face diffusion coefficients sum to zero (zero flux for ghost = inner); advective boundary flux is linear in the wall velocity (R1L)',
    'R5p': 'periodic closure: the ghost layer wraps to the opposite side under every flag configuration that makes an axis periodic',
    'R6': 'source terms are cell-local',
    'R7': 'domainIntegral = sum(cellvolume*value)',
    'R8': 'solveExplicitPDE: interior = old + dt*RHS, ghost layer re-imposed from the BCs for the new interior',
}

TERMS = [
    ('diffusion', 'diffusion', 'diffusionTerm', 'D', 'matrix'),
    ('convection', 'advection', 'convectionTerm', 'u', 'matrix'),
    ('upwind', 'advection', 'convectionUpwindTerm', 'u', 'matrix'),
    ('divergence', 'calculus', 'divergenceTerm', 'Fv', 'vector'),
    ('tvd', 'advection', 'convectionTVDupwindRHSTerm', 'u', 'vector'),
]


def jobs(tier):
    out = [(c, tier) for c in MESH_CLASSES]
    # integer-dtype face positions (a legal input): nothing the operators or the volumes read may be truncated on the way
    from ..model import DIM as _DIM
    for c in MESH_CLASSES:
        out.append((c, tier, {1: (3,), 2: (3, 2), 3: (2, 3, 2)}[_DIM[c]], 'int'))
    if tier != 'quick':
        from ..model import DIM
        for c in MESH_CLASSES:
            for sz in F.SMALL_SIZES[DIM[c]]:
                out.append((c, tier, sz))
    return out


def _rows(w, kind, obj, P):
    if kind == 'matrix':
        return F.row_by_col(w, w.matrix_row(obj, P))
    return {'rhs': ((), w.vector_at(obj, P))}


def job(args):
    cls, tier = args[0], args[1]
    sizes = args[2] if len(args) > 2 else None
    int_data = len(args) > 3 and args[3] == 'int'
    sm = SourceModel()
    w = World(sm, cls, sizes=sizes, int_data=int_data)
    obs = []
    samples = []
    units = set()
    szt = f" sizes={sizes}" if sizes else ''

    def ob(rule, construct, ok, detail='', loc=''):
        obs.append(dict(rule=rule, construct=construct, ok=bool(ok), detail=(str(detail) + szt)[:1500], loc=loc, nontrivial=True))

    w.volume()
    units.add(f"mesh.{cls}._getCellVolumes")
    for (tname, module, disp, cname, kind) in TERMS:
        impl, proj, call, line = F.implementer(sm, module, disp, cls)
        if impl is None:
            raise AnalysisError(f"{disp}: no implementing call found for {cls}")
        fi = sm.func(module, impl)
        units.add(f"{module}.{impl}")
        loc = fi.loc()
        coef = w.face_variable(cname)
        phi = w.cell_variable('phi')
        try:
            if tname == 'tvd':
                res = w.call(module, disp, coef, phi, OpaqueFn('FL'))
            else:
                res = w.call(module, disp, coef)
        except AbstractRaise as e:
            ob('R0', f"{module}.{impl}", False, f"builder raises {e.exc}: {e.msg}", loc)
            continue
        base = f"{module}.{impl}"
        if kind == 'matrix':
            if not isinstance(res, ASparse):
                ob('R0', base, False, f"dispatcher does not return a sparse matrix for {cls}", loc)
                continue
            for iss in res.issues:
                ob('R0', base, False, f"{iss[0]}: {iss[1]}", f"src/pyfvtool/{module}.py:{iss[2]}")
            if res.issues:
                continue
            ob('R0', base, True, 'layout consistent', loc)
        cache = {}

        def rows(P):
            k = F.cstr(P)
            if k not in cache:
                cache[k] = _rows(w, kind, res, P)
            return cache[k]
        for a in range(w.dim):
            tcls = [F.transverse_classes(w, b, tier) if b != a else [None] for b in range(w.dim)]
            for i in F.face_classes(w, a, tier):
                for T in itertools.product(*tcls):
                    L = tuple(i if k == a else T[k] for k in range(w.dim))
                    H = tuple(i + 1 if k == a else T[k] for k in range(w.dim))
                    akey = F.face_atom_key(cname, a, i, [t if t is not None else ZERO for t in T], w)
                    aid = atom_id(akey)
                    Lin, Hin = F.is_interior(w, L), F.is_interior(w, H)
                    construct = f"{base}/axis={AX[a]}"
                    fdesc = f"face {AX[a]}={i} between cells {F.cstr(L)}|{F.cstr(H)}"
                    try:
                        rl = rows(L) if Lin else {}
                        rh = rows(H) if Hin else {}
                        cl = {k: (c, F.lin_coeff(v, aid)) for k, (c, v) in rl.items()}
                        ch = {k: (c, F.lin_coeff(v, aid)) for k, (c, v) in rh.items()}
                    except ValueError as e:
                        ob('R1L', construct, False, f"{fdesc}: coefficient {akey} enters non-linearly or in a denominator ({e})", loc)
                        continue
                    if Lin and Hin:
                        rule = {'matrix': 'R1', 'vector': 'R2' if tname == 'divergence' else 'R3'}[kind]
                        VL, VH = w.vol_at(L), w.vol_at(H)
                        present = False
                        bad = []
                        for k in set(cl) | set(ch):
                            a1 = cl.get(k, (None, ZERO))[1]
                            a2 = ch.get(k, (None, ZERO))[1]
                            if not a1.is_zero() or not a2.is_zero():
                                present = True
                            s = VL * a1 + VH * a2
                            if not is_zero(s):
                                bad.append((k, a1, a2))
                        if not present:
                            ob(rule, construct, False, f"{fdesc}: coefficient atom of this face does not occur in either adjacent row", loc)
                        elif bad:
                            k, a1, a2 = bad[0]
                            if cls == 'SphericalGrid3D':
                                # does the face cancel for the mid-point measure r_p^2 dr sin(theta_p) dtheta dphi ?
                                ML, MH = _midpoint_volume(w, L), _midpoint_volume(w, H)
                                if all(is_zero(ML * cl.get(kk, (None, ZERO))[1] + MH * ch.get(kk, (None, ZERO))[1]) for kk in set(cl) | set(ch)):
                                    construct = construct + '[cancels-for-midpoint-volume-only]'
                            ob(rule, construct, False,
                               f"{fdesc}: column {k}: V(L)*cL + V(H)*cH != 0 with cL={fmt_rat(a1)}, cH={fmt_rat(a2)}, V(L)={fmt_rat(VL)}, V(H)={fmt_rat(VH)}", loc)
                        else:
                            ob(rule, construct, True, fdesc, loc)
                            if len(samples) < 3 and tname in ('diffusion', 'upwind'):
                                k0 = sorted(cl)[0] if cl else None
                                samples.append(dict(rule=rule, cls=cls, term=tname, face=fdesc,
                                                    cL={str(k): fmt_rat(v[1]) for k, v in cl.items()},
                                                    cH={str(k): fmt_rat(v[1]) for k, v in ch.items()},
                                                    VL=fmt_rat(VL), VH=fmt_rat(VH), identity='V(L)*cL[c] + V(H)*cH[c] == 0 for every column c'))
                    elif w.symbolic and tname in ('diffusion', 'convection', 'upwind', 'divergence') and (Lin or Hin):
                        # R4 boundary face
                        side = 'low' if Hin else 'high'
                        g = _generic_functional(w, kind, res, a, cname, T, side, tname, rows)
                        if g is None:
                            continue
                        inner = H if Hin else L
                        ghost = L if Hin else H
                        got = {k: (c, (w.vol_at(inner) * v)) for k, (c, v) in (ch if Hin else cl).items()}
                        exp = {}
                        for rel, val in g.items():
                            # rel: 'L' or 'H' or 'rhs' ; generic functional expressed at face t
                            tv = F.transplant(w, val, a, i)
                            exp[rel] = tv
                        if tname == 'diffusion':
                            # R5: with the no-flux ghost relation (ghost value = inner value, C03/C07.M3) the boundary face carries no flux
                            tot5 = ZERO
                            for k5, (c5, v5) in got.items():
                                tot5 = tot5 + v5
                            ob('R5', construct, is_zero(tot5), f"{fdesc} ({side} boundary): coefficients of the boundary-face diffusivity sum to {fmt_rat(tot5, 5)} (must be 0 so that ghost = inner gives zero flux)", loc)
                        if kind == 'vector':
                            gv = got.get('rhs', (None, ZERO))[1]
                            ok = is_zero(gv - exp.get('rhs', ZERO))
                            ob('R4', construct, ok, f"{fdesc} ({side} boundary): RHS functional {fmt_rat(gv)} vs transplanted {fmt_rat(exp.get('rhs', ZERO))}", loc)
                            continue
                        eL, eH = exp.get('L', ZERO), exp.get('H', ZERO)
                        if tname == 'upwind':
                            if side == 'low':      # ghost is L
                                eL, eH = eL / 2, eH + eL / 2
                            else:                  # ghost is H
                                eL, eH = eL + eH / 2, eH / 2
                        kL, kH = tuple(str(c) for c in L), tuple(str(c) for c in H)
                        gL = got.get(kL, (None, ZERO))[1]
                        gH = got.get(kH, (None, ZERO))[1]
                        extra = [k for k, (c, v) in got.items() if k not in (kL, kH) and not v.is_zero()]
                        ok = is_zero(gL - eL) and is_zero(gH - eH) and not extra
                        ob('R4', construct, ok,
                           f"{fdesc} ({side} boundary): got [{fmt_rat(gL)}, {fmt_rat(gH)}] expected [{fmt_rat(eL)}, {fmt_rat(eH)}]" + (f" extra columns {extra}" if extra else ''), loc)
            # locality: generic row and boundary rows
        for P in F.cell_classes(w, tier, mode='axes'):
            try:
                r = rows(P)
            except AbstractRaise as e:
                ob('R1L', base, False, f"row {F.cstr(P)} raises {e.exc}", loc)
                continue
            badatoms = []
            for k, (c, v) in r.items():
                for (aid, key) in atoms_with_head(v, cname):
                    if not _own_face(w, P, key):
                        badatoms.append(key)
            ob('R1L', base, not badatoms, f"row {F.cstr(P)} mentions coefficient atoms of foreign faces: {badatoms[:3]}" if badatoms else f"row {F.cstr(P)} local", loc)
    # ---- R6 sources
    beta = w.cell_variable('beta')
    for (fname, kind) in (('linearSourceTerm', 'matrix'), ('constantSourceTerm', 'vector')):
        fi = sm.func('source', fname)
        units.add(f"source.{fname}")
        res = w.call('source', fname, beta)
        for P in F.cell_classes(w, tier, mode='axes'):
            if kind == 'matrix':
                r = F.row_by_col(w, w.matrix_row(res, P))
                kP = tuple(str(c) for c in P)
                v = r.get(kP, (None, ZERO))[1]
                others = [k for k, (c, x) in r.items() if k != kP and not x.is_zero()]
                ok = not others and is_zero(v - Rat.atom(('beta',) + tuple(P)))
                ob('R6', f"source.{fname}/{'1D' if w.dim == 1 else '2D' if w.dim == 2 else '3D'}", ok, f"{cls} row {F.cstr(P)}: diagonal {fmt_rat(v)}, off-diagonal columns {others}", fi.loc())
            else:
                v = w.vector_at(res, P)
                ok = is_zero(v - Rat.atom(('beta',) + tuple(P)))
                ob('R6', f"source.{fname}/{'1D' if w.dim == 1 else '2D' if w.dim == 2 else '3D'}", ok, f"{cls} RHS at {F.cstr(P)} = {fmt_rat(v)}", fi.loc())
    # ---- R7 domainIntegral
    mi = sm.find_method('CellVariable', 'domainIntegral')
    if mi is None:
        raise AnalysisError("anchor vanished: CellVariable.domainIntegral")
    units.add('cell.CellVariable.domainIntegral')
    phi = w.cell_variable('phi')
    val = w.interp.call_function(mi, [phi], self_obj=phi)
    red = getattr(w.interp, 'reductions', {})
    ok = False
    detail = 'result is not a single sum reduction'
    ncells = None
    if not w.symbolic:
        ncells = 1
        for n_ in w.N:
            ncells *= n_.as_int()
    if ncells == 1:
        P1 = tuple(ONE for _ in w.N)
        ok = isinstance(val, Rat) and is_zero(val - w.vol_at(P1) * Rat.atom(('phi',) + P1))
        detail = f"single-cell mesh: integral = {val}"
    elif isinstance(val, Rat) and len(val.fac) == 1 and val.coef == 1:
        key = atom_key(next(iter(val.atoms())))
        if isinstance(key, tuple) and key[0] == 'reduce' and key[1] == 'sum' and key in red:
            arr = red[key]
            seg = arr.segs[0] if arr.segs else arr
            ok = True
            detail = ''
            for P in F.cell_classes(w, tier, mode='axes'):
                e = seg.at(tuple(p - 1 for p in P))
                if not is_zero(e - w.vol_at(P) * Rat.atom(('phi',) + tuple(P))):
                    ok = False
                    detail = f"summand at {F.cstr(P)} is {fmt_rat(e)}, not cellvolume*value"
            if seg.ndim != w.dim or any(not (s - n).is_zero() for s, n in zip(seg.shape, w.N)):
                ok = False
                detail = "summed array is not the interior block"
    ob('R7', 'cell.CellVariable.domainIntegral', ok, f"{cls}: {detail}", mi.loc())
    # ---- R5p periodic closure of explicitly evaluated fluxes: under every flag configuration that makes an axis periodic
    # (both faces flagged, or one of them) the ghost layer wraps - the value across the low face is the last interior value
    # and vice versa - so the one physical seam face carries the same face value / gradient on both of its copies
    if w.symbolic:
        from ..model import RADIAL, FACES
        from ..arrays import Arr, Box
        gfi = sm.func('boundary', 'cellValuesWithBoundaries')
        units.add('boundary.cellValuesWithBoundaries')
        d = w.dim
        for a in range(d):
            if a == 0 and cls in RADIAL:
                continue
            lo, hi = FACES[2 * a], FACES[2 * a + 1]
            for mode, flagged in (('both', (lo, hi)), ('low-only', (lo,)), ('high-only', (hi,))):
                bc = w.boundary_conditions(periodic=flagged)
                interior = Box(Arr(tuple(w.N), lambda idx: Rat.atom(('phi',) + tuple(i + 1 for i in idx))))
                construct = f"boundary.cellValuesWithBoundaries[{cls}]/periodic-wrap/axis={AX[a]}/{mode}"
                try:
                    g = snap(w.call('boundary', 'cellValuesWithBoundaries', interior, bc))
                except AbstractRaise as e:
                    ob('R5p', construct, False, f"raises {e.exc}: {e.msg}", gfi.loc())
                    continue
                T = tuple(w.t)
                Glo = tuple(ZERO if k == a else T[k] for k in range(d))
                Ghi = tuple(w.N[k] + 1 if k == a else T[k] for k in range(d))
                wlo = Rat.atom(('phi',) + tuple(w.N[k] if k == a else T[k] for k in range(d)))
                whi = Rat.atom(('phi',) + tuple(ONE if k == a else T[k] for k in range(d)))
                dl, dh = g.at(Glo) - wlo, g.at(Ghi) - whi
                ob('R5p', construct, is_zero(dl) and is_zero(dh),
                   f"ghost across the {lo} face = {fmt_rat(g.at(Glo), 4)} (last interior value expected), across the {hi} face = {fmt_rat(g.at(Ghi), 4)} (first interior value expected)"
                   if not (is_zero(dl) and is_zero(dh)) else f"ghost layer wraps along {AX[a]} with flags on {flagged}", gfi.loc())
    # ---- R8 explicit solver step
    if w.symbolic:
        from .c12 import explicit_step
        units.add('pdesolver.solveExplicitPDE')

        def ob8(rule, construct, ok, detail='', loc=''):
            ob(rule, construct, ok, f"[{cls}] {detail}", loc)
        explicit_step(w, sm, F.cell_classes(w, tier, mode='axes'), ob8, Rat.atom(('dt',)), r2='R8', r3='R8')
    return dict(obs=obs, units=sorted(units), samples=samples, funcs=sorted(w.interp.funcs_seen))


def _own_face(w, P, key):
    # key = (name, ax, idx...)
    a = AX.index(key[1])
    idx = key[2:]
    if len(idx) != w.dim:
        return False
    for b in range(w.dim):
        if b == a:
            if not (w.ctx.eq(idx[b], P[b] - 1) or w.ctx.eq(idx[b], P[b])):
                return False
        else:
            if not w.ctx.eq(idx[b], P[b] - 1):
                return False
    return True


def _generic_functional(w, kind, res, a, cname, T, side, tname, rows):
    """volume-weighted coefficient of the generic face atom (axis a, index t) in the row of the cell on
    the interior side: for side 'low' (boundary face is the low face of the inner cell) the row of H=t+1,
    for 'high' the row of L=t.  Returned per column role: {'L': .., 'H': ..} or {'rhs': ..}"""
    t = w.t[a]
    Tg = [x if x is not None else ZERO for x in T]
    L = tuple(t if k == a else Tg[k] for k in range(w.dim))
    H = tuple(t + 1 if k == a else Tg[k] for k in range(w.dim))
    akey = F.face_atom_key(cname, a, t, Tg, w)
    aid = atom_id(akey)
    cell = H if side == 'low' else L
    r = rows(cell)
    V = w.vol_at(cell)
    out = {}
    kL, kH = tuple(str(c) for c in L), tuple(str(c) for c in H)
    for k, (c, v) in r.items():
        co = F.lin_coeff(v, aid)
        if co.is_zero():
            continue
        if k == 'rhs':
            out['rhs'] = V * co
        elif k == kL:
            out['L'] = V * co
        elif k == kH:
            out['H'] = V * co
        else:
            return None
    return out


def _midpoint_volume(w, P):
    """r_p^2 * dr * sin(theta_p) * dtheta * dphi  (the measure the SphericalGrid3D operators are written for)"""
    def f(ax, i):
        return Rat.atom(('f', ax, R(i)))
    rp = (f('x', P[0]) + f('x', P[0] - 1)) / 2
    thp = (f('y', P[1]) + f('y', P[1] - 1)) / 2
    from ..arrays import opaque_fn
    return rp * rp * (f('x', P[0]) - f('x', P[0] - 1)) * opaque_fn('sin', thp) * (f('y', P[1]) - f('y', P[1] - 1)) * (f('z', P[2]) - f('z', P[2] - 1))


def finalize(sm, rep, tier, results):
    impl = {u for u in rep.units if any(u.startswith(p) for p in ('diffusion.diffusionTerm', 'advection.convectionTerm', 'advection.convectionUpwindTerm',
                                                                 'advection.convectionTvdRHS', 'calculus.divergenceTerm'))}
    rep.floor('flux-form term implementations reached through the dispatchers', len(impl), 45)
    rep.floor('mesh classes with an extracted cellvolume', len({u for u in rep.units if u.endswith('._getCellVolumes')}), 9)
    rep.floor('interior-face cancellation obligations (R1+R2+R3)', sum(1 for o in rep.obs if o['rule'] in ('R1', 'R2', 'R3')), 250)
    rep.floor('boundary-face obligations (R4)', sum(1 for o in rep.obs if o['rule'] == 'R4'), 120)
    # positive control: a synthetic two-cell stencil with a deliberately wrong neighbour size must not cancel
    from ..alg import Rat, is_zero
    a, b, c = (Rat.atom(('f', 'x', Rat.const(i))) for i in (0, 1, 2))
    VL, VH = b - a, c - b
    cL, cH = 1 / (VL), -1 / (VL)          # H row divided by the wrong cell size
    rep.control('R1 fires on a face coefficient divided by the wrong cell size', not is_zero(VL * cL + VH * cH))
    rep.control('R1 silent on the correct pair', is_zero(VL * (1 / VL) + VH * (-1 / VH)))


ASSUMPTIONS = [
    'face positions strictly increasing on every axis; radial faces >= 0 (used only to drop np.abs in _getCellVolumes)',
    'csr_array((d,(i,j))) sums duplicate entries; scipy sparse + is entrywise',
    'exact arithmetic: the clause "to rounding" and the accuracy of the sparse solver are not decided',
    'the multi-step statement follows from R1-R6 by the telescoping-sum argument (not re-derived per run)',
]
