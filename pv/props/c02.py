"""C02 - agreement with the documented PDE: consistency clause only.

NOT decided: the convergence rate under refinement, stability, behaviour of the solver - a limit statement about runs
that no static argument in reach bounds.  Decided: the *necessary* structural clause named in the property ("every metric
factor, sign convention and coefficient placement agrees with the continuous operator, also on non-uniform spacing"):

 K1  truncation-limit consistency at a generic interior cell.  The extracted stencil of every spatial operator of every
     grid class is applied to smooth symbolic fields: face positions f[t+k] = X + eps*k*a + eps^2*k^2*b/2 (smoothly graded
     spacing, a > 0, b free), samples of phi / D / u / F are second-order Taylor jets about X, sin(theta_f) is expanded
     likewise.  The Laurent series in eps of (discrete operator applied to the samples) is computed exactly; the
     coefficients of eps^-2 and eps^-1 must vanish and the eps^0 coefficient must equal the continuous operator
         div(D grad phi), div(u phi), div(F), grad phi
     written in the orthogonal coordinates of the class (metric table h_a, (1/J)d_a(J/h_a), (1/J)d_a(J/h_a^2) below - the
     oracle, from vector calculus), for every sign of the velocity components (upwind).
 K3  boundary faces: the flux functional of every boundary face (volume-weighted part of the adjacent row that is linear in
     that face's coefficient, applied to smooth samples, the ghost sample taken at the mirrored ghost centre) has the same
     leading order in eps as the interior-face functional expanded about the same point, for which K1 establishes the
     limit.  Flux consistency at the boundary is necessary for convergence of a conservative scheme (an O(1) error in a
     boundary flux is an O(1) error in the global balance); the first-order term is deliberately not compared (donor-cell
     upwinding with the boundary value on the face differs there, legitimately).
 K4  order clause for the centred operators (diffusion, central advection, divergence): on uniform spacing the
     eps^1 coefficient of the truncation series vanishes, i.e. the generic-cell truncation error is O(h^2) - the "order of
     the scheme" named in the property, as a statement about the local truncation error (not about the solution error)
 K2  boundary rows are the Robin relation with the metric factor (C03.B2) and the backward-Euler row is exact (C12.T1):
     exact identities proved there; referenced, not repeated.
"""
from __future__ import annotations
import itertools
from fractions import Fraction
from ..alg import Rat, Poly, atom_id, atom_key, is_zero, fmt_rat, ind
from ..srcmodel import SourceModel, AnalysisError, MESH_CLASSES
from ..arrays import AbstractRaise, R, ZERO, ONE, snap
from ..model import World, AX, DIM
from ..interp import ASparse
from ..series import Series, rat_to_series, INF
from .. import facts as F

PROP = 'C02'
from . import lemmas as _lemmas
LEMMAS = [_lemmas.PROTOCOL, _lemmas.SOLVE, _lemmas.BCROWS, _lemmas.PURITY]
RULES = {'K1': 'limit of the discrete operator on smooth fields == documented continuous operator (generic cell, graded spacing)',
         'K2': 'boundary relation and time discretisation exact (C03.B2, C12.T1)',
         'K3': 'boundary-face flux functional has the leading order of the interior-face functional',
         'K4': 'centred operators are second-order accurate on uniform spacing (eps^1 coefficient vanishes)'}
ASSUMPTIONS = ['smoothly graded spacing f[t+k] = X + eps*k*a + eps^2*k^2*b/2; smooth fields; a > 0; non-vanishing velocity components for the upwind limit',
               'the order of convergence, stability and the refinement behaviour itself are NOT decided',
               'TVD correction: consistency follows from C05.E4/E5 with psi(1)=1 (C13.F4); not expanded here because the limiter is opaque']
SPH3 = 'SphericalGrid3D'
ORDER2 = True         # the order clause K4 (needs one more Taylor order and the cell-centred expansion point)


def metric(cls):
    """per axis: (1/h_a, G_a = (1/J) d_a (J/h_a^2), H_a = (1/J) d_a (J/h_a)) as Rats in r = X_x, S = sin(X_y), C = cos(X_y)"""
    r = Rat.atom(('X', 'x'))
    S, C = Rat.atom(('S', 'y')), Rat.atom(('C', 'y'))
    z = ZERO
    if cls in ('Grid1D', 'Grid2D', 'Grid3D'):
        return [(ONE, z, z)] * DIM[cls]
    if cls == 'CylindricalGrid1D':
        return [(ONE, 1 / r, 1 / r)]
    if cls == 'CylindricalGrid2D':
        return [(ONE, 1 / r, 1 / r), (ONE, z, z)]
    if cls == 'PolarGrid2D':
        return [(ONE, 1 / r, 1 / r), (1 / r, z, z)]
    if cls == 'CylindricalGrid3D':
        return [(ONE, 1 / r, 1 / r), (1 / r, z, z), (ONE, z, z)]
    if cls == 'SphericalGrid1D':
        return [(ONE, 2 / r, 2 / r)]
    if cls == SPH3:
        return [(ONE, 2 / r, 2 / r), (1 / r, C / (r * r * S), C / (r * S)), (1 / (r * S), z, z)]
    raise AnalysisError(cls)


def jet(name, alpha):
    return Rat.atom(('jet', name, tuple(alpha)))


def unit(d, a, n=1):
    return tuple(n if k == a else 0 for k in range(d))


class Expander:
    """face positions about the expansion point: f[anchor_k + o] = X_k + eps*o*a_k + eps^2*o^2*b_k/2.
    anchor_k is the generic face index t_k, or - for the boundary analysis K3 - the index of the boundary face of axis
    bnd[0] (0 or N); there the face beyond the boundary is the mirror image of the first interior one (the ghost cell has
    the size of the adjacent cell, C10.G1).  Indices that are a constant offset from *another* reference of the axis (the
    opposite end, the generic position) get an expansion of their own with independent symbols."""
    def __init__(self, w, order=3, anchor=None, bnd=None, shift=0):
        self.shift = Fraction(shift)       # 1/2: the expansion point is the centre of the generic cell (order clause K4)
        self.order = order
        self.w = w
        self.d = w.dim
        self.X = [Rat.atom(('X', AX[k])) for k in range(self.d)]
        self.a = [Rat.atom(('ga', AX[k])) for k in range(self.d)]
        self.b = [Rat.atom(('gb', AX[k])) for k in range(self.d)]
        self.tid = [atom_id(('t', AX[k])) for k in range(self.d)]
        self.anchor = list(anchor) if anchor is not None else list(w.t)
        self.bnd = bnd

    def offset(self, k, idx, tagged=False):
        dlt = R(idx) - self.anchor[k]
        if dlt.is_const():
            return ('', dlt.const_value()) if tagged else dlt.const_value()
        if tagged:
            for tag, ref in (('lo', ZERO), ('hi', self.w.N[k]), ('gen', self.w.t[k])):
                dl = R(idx) - ref
                if dl.is_const():
                    return tag, dl.const_value()
        raise AnalysisError(f"index {idx} is not a constant offset from the expansion position of axis {AX[k]}")

    def face_pos(self, k, idx, rel=False):
        tag, o = self.offset(k, idx, tagged=True)
        if tag:
            if rel:
                raise AnalysisError(f"a field sample at index {idx} of axis {AX[k]} is not adjacent to the expansion point")
            ax = AX[k]
            return Series.poly([Rat.atom(('X', ax, tag)), Rat.atom(('ga', ax, tag)) * o, Rat.atom(('gb', ax, tag)) * o * o / 2])
        if self.bnd is not None and k == self.bnd[0] and ((self.bnd[1] == 'low' and o < 0) or (self.bnd[1] == 'high' and o > 0)):
            if abs(o) != 1:
                raise AnalysisError("face more than one cell beyond the boundary")
            inner = Series.poly([ZERO, self.a[k] * (-o), self.b[k] / 2])
            co = Series.poly([self.X[k] if not rel else ZERO]) - inner          # 2 f[0] - f[-+1]
            return co
        o = o + self.shift
        co = [self.X[k] if not rel else ZERO, self.a[k] * o, self.b[k] * o * o / 2]
        return Series.poly(co)

    def centre_rel(self, k, cell):
        """centre of cell `cell` (full coordinates) minus X_k"""
        return (self.face_pos(k, cell, True) + self.face_pos(k, R(cell) - 1, True)).scale(Rat.const(Fraction(1, 2)))

    def taylor(self, name, deltas, order=None):
        """sum_{|alpha|<=order} jet_alpha * prod delta^alpha / alpha!   (deltas: Series per axis, each O(eps))"""
        import itertools
        from math import factorial
        order = order or self.order
        d = self.d
        tot = Series(0, [], INF)
        pw = {}
        for k in range(d):
            pw[(k, 0)] = Series.const(1)
            for n in range(1, order + 1):
                pw[(k, n)] = pw[(k, n - 1)] * deltas[k]
        for al in itertools.product(range(order + 1), repeat=d):
            if sum(al) > order:
                continue
            term = Series.const(jet(name, al))
            den = 1
            for k in range(d):
                term = term * pw[(k, al[k])]
                den *= factorial(al[k])
            tot = tot + term.scale(Rat.const(Fraction(1, den)))
        # remainder of order+1: everything from eps^(order+1) on is unknown
        return Series(tot.val, tot.c, min(tot.top, order + 1))

    def atom_series(self, key):
        if not isinstance(key, tuple) or not key:
            return None
        h = key[0]
        d = self.d
        if h == 'f':
            k = AX.index(key[1])
            return self.face_pos(k, key[2])
        if h in ('phi',):
            idx = key[1:]
            return self.taylor(h, [self.centre_rel(k, idx[k]) for k in range(d)])
        if h in ('D', 'u', 'Fv'):
            comp = AX.index(key[1])
            idx = key[2:]
            deltas = []
            for k in range(d):
                if k == comp:
                    deltas.append(self.face_pos(k, idx[k], True))
                else:
                    deltas.append(self.centre_rel(k, R(idx[k]) + 1))
            return self.taylor(f"{h}.{key[1]}", deltas)
        if h == 'fn' and key[1] in ('sin', 'cos'):
            th = rat_to_series(key[2], self.atom_series)
            th0 = th.coeff(0)
            ax = None
            for k in range(d):
                if is_zero(th0 - self.X[k]):
                    ax = k
            if th.val < 0:
                raise AnalysisError(f"argument of {key[1]} is unbounded in the limit: {th}")
            rest = th - Series.const(th0)
            if ax is None:
                # the argument tends to some other point than the expansion point (e.g. a position anchored at the opposite
                # end of the axis): expand about that point with sine / cosine atoms of its own - they cannot cancel against
                # the reference's S, C of the expansion point, so a metric factor taken at the wrong place shows as a mismatch
                from ..arrays import opaque_fn
                S, C = opaque_fn('sin', th0), opaque_fn('cos', th0)
            else:
                S, C = Rat.atom(('S', AX[ax])), Rat.atom(('C', AX[ax]))
            r2 = rest * rest
            r3 = r2 * rest
            if key[1] == 'sin':
                return Series.const(S) + rest.scale(C) - r2.scale(S / 2) - r3.scale(C / 6)
            return Series.const(C) - rest.scale(S) - r2.scale(C / 2) + r3.scale(S / 6)
        if h == 'ind':
            s = rat_to_series(key[2], self.atom_series)
            if s.val != 0 or not s.c:
                raise AnalysisError("indicator argument without a finite non-zero limit")
            return Series.const(ind(key[1], s.c[0]))
        if h in ('t', 'N'):
            raise AnalysisError(f"bare index symbol {key} inside a coefficient")
        if h in ('pi',):
            return None
        raise AnalysisError(f"C02: no expansion rule for atom {key!r}")


def continuous(cls, d, term):
    M = metric(cls)
    phi = lambda al: jet('phi', al)
    z0 = (0,) * d
    tot = ZERO
    for a in range(d):
        ih, G, H = M[a]
        e1, e2 = unit(d, a), unit(d, a, 2)
        if term == 'diffusion':
            Dn = f"D.{AX[a]}"
            tot = tot + ih * ih * (jet(Dn, z0) * phi(e2) + jet(Dn, e1) * phi(e1)) + jet(Dn, z0) * phi(e1) * G
        elif term in ('convection', 'upwind'):
            un = f"u.{AX[a]}"
            tot = tot + ih * (jet(un, z0) * phi(e1) + jet(un, e1) * phi(z0)) + jet(un, z0) * phi(z0) * H
        elif term == 'divergence':
            Fn = f"Fv.{AX[a]}"
            tot = tot + ih * jet(Fn, e1) + jet(Fn, z0) * H
    return tot


def jobs(tier):
    return [(c, tier) for c in MESH_CLASSES]


def job(args):
    cls, tier = args
    global ORDER2
    ORDER2 = True
    sm = SourceModel()
    w = World(sm, cls)
    d = w.dim
    ex = Expander(w)
    obs, samples, units = [], [], set()

    def ob(rule, construct, ok, detail='', loc=''):
        obs.append(dict(rule=rule, construct=construct, ok=bool(ok), detail=(f"[{cls}] " + str(detail))[:1500], loc=loc, nontrivial=True))
    P = tuple(w.t)
    for (tname, module, disp, cname) in (('diffusion', 'diffusion', 'diffusionTerm', 'D'), ('convection', 'advection', 'convectionTerm', 'u'),
                                         ('upwind', 'advection', 'convectionUpwindTerm', 'u'), ('divergence', 'calculus', 'divergenceTerm', 'Fv')):
        impl = F.implementer(sm, module, disp, cls)[0]
        fi = sm.func(module, impl)
        units.add(f"{module}.{impl}")
        construct = f"{module}.{impl}"
        res = w.call(module, disp, w.face_variable(cname))
        last = None
        for order in ((4, 5, 6) if ORDER2 else (3, 4, 5)):
            try:
                _analyse_term(w, Expander(w, order, shift=Fraction(1, 2) if ORDER2 else 0), res, P, cls, d, tname, construct, fi, ob, samples)
                last = None
                break
            except AnalysisError as e:
                if 'precision' not in str(e):
                    raise
                last = e
        if last is not None:
            raise last
        # ---- K3 boundary faces
        if isinstance(res, ASparse) and res.issues:
            continue
        for a in range(d):
            for side in ('low', 'high'):
                try:
                    _boundary_flux(w, res, cls, d, a, side, tname, cname, construct, fi, ob)
                except ZeroDivisionError as e:
                    ob('K3', f"{construct}/axis={AX[a]}/{side}", False, f"series expansion: {e}", fi.loc())
    # gradient components
    fi = sm.func('calculus', 'gradientTerm')
    units.add('calculus.gradientTerm')
    g = w.call('calculus', 'gradientTerm', w.cell_variable('phi'))
    M = metric(cls)
    for a in range(d):
        comp = snap(g.attrs['_' + AX[a] + 'value'])
        idx = tuple(w.t[j] - (0 if j == a else 1) for j in range(d))
        s = rat_to_series(comp.at(idx), ex.atom_series)
        badneg = [p for p in range(min(s.val, 0), 0) if not is_zero(s.coeff(p))]
        lim = s.coeff(0)
        exp = M[a][0] * jet('phi', unit(d, a))
        ok = not badneg and is_zero(lim - exp)
        ob('K1', f"calculus.gradientTerm[{cls}]/axis={AX[a]}", ok, f"limit of the face gradient {fmt_rat(lim, 6)} vs (1/h)*d phi = {fmt_rat(exp, 6)}", fi.loc())
    return dict(obs=obs, units=sorted(units), samples=samples)


def global_rules(sm, rep, tier):
    rep.notes.append('K2: see C03.B2 (boundary rows == Robin relation with metric) and C12.T1 (backward Euler row exact)')
    rep.ob('K2', 'reference', True, 'exact identities proved by C03.B2 and C12.T1 on the same tree', '', nontrivial=False)


def finalize(sm, rep, tier, results):
    rep.floor('operator implementations expanded', len({o['construct'] for o in rep.obs if o['rule'] == 'K1' and 'gradientTerm' not in o['construct']}), 36)
    rep.floor('gradient components', len({o['construct'] for o in rep.obs if 'gradientTerm' in o['construct']}), 18)
    # positive control: a spherical radial diffusion coefficient with r_f instead of r_f^2 must change the limit
    X, a = Rat.atom(('X', 'x')), Rat.atom(('ga', 'x'))
    f = lambda k: Series.poly([X, a * k, ZERO])
    good = (f(1) * f(1)) / (((f(1) + f(0)).scale(Rat.const(Fraction(1, 2)))) ** 2)
    bad = f(1) / (((f(1) + f(0)).scale(Rat.const(Fraction(1, 2)))) ** 2)
    p1, p2, p3 = (Rat.atom(('ctl', 'phi', k)) for k in (1, 2, 3))
    def ph(sgn):
        return Series.poly([ZERO, p1 * sgn, p2 / 2, p3 * sgn / 6])
    eps_ = Series.poly([ZERO, ONE])
    fwd = ph(1) / eps_
    ctr = (ph(1) - ph(-1)) / (eps_ + eps_)
    rep.control('K4 separates a one-sided difference (first order) from a centred one (second order)', not is_zero(fwd.coeff(1)) and is_zero(ctr.coeff(1)) and is_zero(ctr.coeff(0) - p1))
    if True:
        rep.floor('centred operators with the order clause K4', sum(1 for o in rep.obs if o['rule'] == 'K4'), 27)
    rep.control('K1 distinguishes r_f^2/r_p^2 from r_f/r_p^2 in the limit', is_zero(good.coeff(0) - 1) and not is_zero(bad.coeff(0) - 1))


def _face_functional(w, res, cell, akey):
    """V(cell) * (part of the row of `cell` that is linear in the face-coefficient atom akey), applied to phi"""
    aid = atom_id(akey)
    V = w.vol_at(cell)
    if isinstance(res, ASparse):
        tot = ZERO
        for e in w.matrix_row(res, cell):
            co = F.lin_coeff(e['val'], aid)
            if not co.is_zero():
                tot = tot + co * Rat.atom(('phi',) + tuple(e['col']))
        return V * tot
    return V * F.lin_coeff(w.vector_at(res, cell), aid)


def _boundary_flux(w, res, cls, d, a, side, tname, cname, construct, fi, ob):
    """K3: leading order of the boundary-face flux functional == leading order of the generic interior one"""
    from .c05 import zero_excluding_ties
    t = w.t
    i = ZERO if side == 'low' else w.N[a]
    inner = tuple((ONE if side == 'low' else w.N[a]) if k == a else t[k] for k in range(d))
    Tg = list(t)
    bkey = F.face_atom_key(cname, a, i, Tg, w)
    gkey = F.face_atom_key(cname, a, t[a], Tg, w)
    gcell = tuple((t[a] + 1 if side == 'low' else t[a]) if k == a else t[k] for k in range(d))
    cons = f"{construct}/axis={AX[a]}/{side}"
    try:
        B = _face_functional(w, res, inner, bkey)
        G = _face_functional(w, res, gcell, gkey)
    except ValueError as e:
        ob('K3', cons, False, f"face coefficient enters non-linearly: {e}", fi.loc())
        return
    # identify the coefficient atom of the boundary face with the generic one (same physical face after the shift)
    B = B.subs({atom_id(bkey): Rat.atom(gkey)})
    lead = d - 1
    last = None
    for order in (3, 4, 5):
        try:
            exb = Expander(w, order, anchor=[i if k == a else t[k] for k in range(d)], bnd=(a, side))
            exg = Expander(w, order)
            sb = rat_to_series(B, exb.atom_series)
            sg = rat_to_series(G, exg.atom_series)
            if min(sb.top, sg.top) <= lead:
                raise AnalysisError("series precision insufficient")
            bad = []
            for pw_ in range(min(sb.val, sg.val, lead), lead + 1):
                dlt = sb.coeff(pw_) - sg.coeff(pw_)
                if not zero_excluding_ties(dlt, 'jet'):
                    bad.append((pw_, dlt))
            gl = sg.coeff(lead)
            ok = not bad
            ob('K3', cons, ok, (f"boundary-face flux differs from the interior face flux at order eps^{bad[0][0]} (flux scale eps^{lead}): "
                                f"difference {fmt_rat(bad[0][1], 8)}") if bad else f"leading-order flux {fmt_rat(gl, 5)} on both", fi.loc())
            return
        except AnalysisError as e:
            if 'precision' not in str(e):
                raise
            last = e
    raise last


def _analyse_term(w, ex, res, P, cls, d, tname, construct, fi, ob, samples):
    try:
        if isinstance(res, ASparse):
            if res.issues:
                ob('K1', construct, False, f"layout issues {res.issues[:1]}", fi.loc())
                return
            tot = Series(0, [], INF)
            for e in w.matrix_row(res, P):
                cs = rat_to_series(e['val'], ex.atom_series)
                ps = ex.atom_series(('phi',) + tuple(e['col']))
                tot = tot + cs * ps
        else:
            tot = rat_to_series(w.vector_at(res, P), ex.atom_series)
        if tot.top <= 0:
            raise AnalysisError(f"series precision insufficient (known below eps^{tot.top})")
        neg = [(p, tot.coeff(p)) for p in range(min(tot.val, 0), 0)]
        badneg = [(p, c) for p, c in neg if not is_zero(c)]
        lim = tot.coeff(0)
        exp = continuous(cls, d, tname)
        diff = lim - exp
        from .c05 import zero_excluding_ties
        badneg = [(p, c) for p, c in badneg if not zero_excluding_ties(c, 'jet')]
        ok = not badneg and zero_excluding_ties(diff, 'jet')
        if badneg:
            det = f"the discrete operator on smooth fields diverges like eps^{badneg[0][0]}: coefficient {fmt_rat(badneg[0][1], 8)}"
        elif not ok:
            det = f"limit of the discrete operator differs from the continuous one by {fmt_rat(diff, 10)}"
        else:
            det = f"limit == {fmt_rat(exp, 6)} (Taylor order {ex.order})"
        ob('K1', construct, ok, det, fi.loc())
        if ok and ORDER2 and tname in ('diffusion', 'convection', 'divergence'):
            # K4: on uniform spacing (b = 0) the centred operators are second-order accurate: the eps^1
            # coefficient of the truncation series vanishes
            if tot.top <= 1:
                raise AnalysisError("series precision insufficient for the order clause")
            gb = {atom_id(('gb', AX[k])): ZERO for k in range(d)}
            c1 = tot.coeff(1).subs(gb)
            ok4 = zero_excluding_ties(c1, 'jet')
            ob('K4', construct, ok4, "uniform spacing: first-order term of the truncation series vanishes (second-order accurate)" if ok4
               else f"uniform spacing: the truncation series has a first-order term {fmt_rat(c1, 8)} - the centred operator is only first-order accurate", fi.loc())
        if ok and len(samples) < 1 and cls not in ('Grid1D', 'Grid2D', 'Grid3D'):
            samples.append(dict(rule='K1', cls=cls, term=tname, limit=fmt_rat(lim, 12)))
    except ZeroDivisionError as e:
        ob('K1', construct, False, f"series expansion: {e}", fi.loc())
