"""C03 - reported boundary values satisfy the configured boundary conditions.

boundary.py is interpreted symbolically (sizes, spacings, interior field, face-wise coefficient arrays
a, b, c as atoms) for all 9 classes under every per-axis periodic configuration that the class admits.

 B1  non-periodic faces: the ghost value computed by cellValuesWithBoundaries* substituted into the
     boundary row assembled by boundaryConditionsTerm* satisfies it identically
 B2  that row is  sigma*[ a*(phi_hi-phi_lo)/(h*Delta) + b*(phi_hi+phi_lo)/2 - c ]  with the metric factor h of
     the direction (1, r_p, r_p*sin(theta_p)), Delta the size of the boundary cell, derivative in the
     + coordinate direction, sigma = +-1
 B3  periodic axes: ghost values are the values of the opposite end, and they satisfy the two periodic rows
 B3n periodicity applies only on the axes whose faces are flagged (other axes keep their Robin formula)
 B4  [syntactic] every block is guarded by the periodic flags of the faces whose coefficients it uses
 B7  the ghost formula is invariant and the row scales linearly when (a,b,c) is multiplied by a factor
 B8  plotprofile boundary entries are the face averages (ghost+inner)/2
 B9  every ghost cell (faces, edges, corners) has a non-trivial defining row; interior cells have none
 B6  [path rule] every operation that installs interior values ends in a ghost recomputation (see C09.P2/P4,
     re-checked here syntactically for __init__, apply_BCs, solvePDE, solveExplicitPDE)
"""
from __future__ import annotations
import ast
import itertools
from ..alg import Rat, Poly, atom_id, atom_key, is_zero, fmt_rat, map_atoms
from ..srcmodel import SourceModel, AnalysisError, MESH_CLASSES
from ..arrays import AbstractRaise, R, ZERO, ONE, snap, opaque_fn, Box
from ..model import World, AX, DIM, atom_array, RADIAL
from ..interp import ASparse
from .. import facts as F

PROP = 'C03'
from . import lemmas as _lemmas
LEMMAS = [_lemmas.PROTOCOL, _lemmas.SOLVE]
RULES = {'B1': 'ghost formula satisfies the boundary row', 'B2': 'row == documented Robin relation with metric', 'B3': 'periodic wrap consistent with the periodic rows',
         'B3n': 'periodicity only on flagged axes', 'B4': 'blocks guarded by the flags of their own faces', 'B7': 'scale invariance in (a,b,c)',
         'B8': 'plotprofile boundary entries', 'B9': 'ghost rows cover all ghost cells, interior cells none', 'B6': 'ghost layer recomputed after every (re)computation'}
ASSUMPTIONS = ['exact arithmetic', 'a/Delta + b/2 != 0 on high sides and -a/Delta + b/2 != 0 on low sides (otherwise the relation does not determine the ghost value)',
               'oracle for B2: the property statement and docs/user_guide/boundary_conditions.md']
SIDES = [('left', 0, 'low'), ('right', 0, 'high'), ('bottom', 1, 'low'), ('top', 1, 'high'), ('back', 2, 'low'), ('front', 2, 'high')]
PAIR = {0: ('left', 'right'), 1: ('bottom', 'top'), 2: ('back', 'front')}


def jobs(tier):
    """cfg = tuple of (axis, mode) with mode in 'both' | 'low' | 'high' : which faces of the axis carry the periodic flag.
    An axis is periodic as soon as one of its two faces is flagged (both implementations agree on that reading)."""
    import itertools
    out = []
    for c in MESH_CLASSES:
        d = DIM[c]
        axes = [a for a in range(d) if not (a == 0 and c in RADIAL)]
        cfgs = [()] + [((a, 'both'),) for a in axes]
        for a in axes:                       # single-flag configurations of every admissible axis
            cfgs += [((a, 'low'),), ((a, 'high'),)]
        if tier != 'quick':
            for combo in itertools.product(('none', 'low', 'high', 'both'), repeat=len(axes)):
                cfg = tuple((a, m) for a, m in zip(axes, combo) if m != 'none')
                if cfg not in cfgs:
                    cfgs.append(cfg)
        for cfg in cfgs:
            out.append((c, cfg, tier))
        out.append((c, (), tier, 'int'))      # integer-dtype interior array (a legal input): nothing may be truncated
    return out


def metric(cls, a, P):
    """h factor of direction a at cell P (1, r_p or r_p*sin(theta_p))"""
    def f(ax, i):
        return Rat.atom(('f', ax, R(i)))
    rp = (f('x', P[0]) + f('x', P[0] - 1)) / 2
    if cls in ('PolarGrid2D', 'CylindricalGrid3D') and a == 1:
        return rp
    if cls == 'SphericalGrid3D':
        if a == 1:
            return rp
        if a == 2:
            thp = (f('y', P[1]) + f('y', P[1] - 1)) / 2
            return rp * opaque_fn('sin', thp)
    return ONE


def bc_atom(face, coef, a, P, d):
    idx = tuple(P[k] - 1 for k in range(d) if k != a)
    return Rat.atom(('bc', face, coef) + idx)


def job(args):
    cls, cfg, tier = args[:3]
    dtype = args[3] if len(args) > 3 else 'real'
    sm = SourceModel()
    w = World(sm, cls, int_data=(dtype == 'int'))
    d = w.dim
    obs, samples, units = [], [], set()
    per_faces = set()
    for a, mode in cfg:
        lo, hi = PAIR[a]
        if mode in ('both', 'low'):
            per_faces.add(lo)
        if mode in ('both', 'high'):
            per_faces.add(hi)
    cfgname = 'periodic=' + (','.join(f"{AX[a]}:{m}" for a, m in cfg) if cfg else 'none') + (' dtype=int' if dtype == 'int' else '')
    cfg = tuple(a for a, _m in cfg)

    def ob(rule, construct, ok, detail='', loc=''):
        obs.append(dict(rule=rule, construct=construct, ok=bool(ok), detail=(f"[{cls} {cfgname}] " + str(detail))[:1400], loc=loc, nontrivial=True))
    bc = w.boundary_conditions(periodic=per_faces)
    gi, _p, _c, _l = F.implementer(sm, 'boundary', 'cellValuesWithBoundaries', cls)
    ri, _p, _c, _l = F.implementer(sm, 'boundary', 'boundaryConditionsTerm', cls)
    gfi, rfi = sm.func('boundary', gi), sm.func('boundary', ri)
    units.update({f"boundary.{gi}", f"boundary.{ri}"})
    phi_int = Box(atom_array(('phi',), w.N, offset=tuple(ONE for _ in w.N), kind=dtype))
    try:
        ghost = snap(w.call('boundary', 'cellValuesWithBoundaries', phi_int, bc))
    except AbstractRaise as e:
        ob('B1', f"boundary.{gi}", False, f"raises {e.exc}: {e.msg}", gfi.loc())
        return dict(obs=obs, units=sorted(units), samples=samples)
    try:
        M, RHS = w.call('boundary', 'boundaryConditionsTerm', bc)
    except AbstractRaise as e:
        ob('B1', f"boundary.{ri}", False, f"raises {e.exc}: {e.msg}", rfi.loc())
        return dict(obs=obs, units=sorted(units), samples=samples)
    for iss in M.issues:
        ob('B9', f"boundary.{ri}", False, f"{iss[0]}: {iss[1]}", f"src/pyfvtool/boundary.py:{iss[2]}")
    ok_shape = ghost.ndim == d and all(is_zero(s - (n + 2)) for s, n in zip(ghost.shape, w.N))
    ob('B9', f"boundary.{gi}/shape", ok_shape, f"ghost-extended array shape {tuple(map(str, ghost.shape))}", gfi.loc())
    if not ok_shape:
        return dict(obs=obs, units=sorted(units), samples=samples)

    def PHI(c):
        return ghost.at(tuple(c))
    # interior values are passed through unchanged
    Pg = tuple(w.t)
    ob('B9', f"boundary.{gi}/interior", is_zero(PHI(Pg) - Rat.atom(('phi',) + Pg)), "interior cells keep their values", gfi.loc())
    for (face, a, side) in SIDES:
        if a >= d:
            continue
        n = w.N[a]
        tcl = [F.transverse_classes(w, b, tier) if b != a else [None] for b in range(d)]
        for T in itertools.product(*tcl):
            G = tuple((ZERO if side == 'low' else n + 1) if k == a else T[k] for k in range(d))
            I = tuple((ONE if side == 'low' else n) if k == a else T[k] for k in range(d))
            row = w.matrix_row(M, G)
            rhs = w.vector_at(RHS, G)
            cons_r = f"boundary.{ri}/face={face}"
            cons_g = f"boundary.{gi}/face={face}"
            if not row:
                ob('B9', cons_r, False, f"ghost cell {F.cstr(G)} has no defining row", rfi.loc())
                continue
            diag = sum((e['val'] for e in row if all(is_zero(x - y) for x, y in zip(e['col'], G))), ZERO)
            ob('B9', cons_r, not is_zero(diag), f"ghost cell {F.cstr(G)}: diagonal entry {fmt_rat(diag)}", rfi.loc())
            resid = ZERO
            for e in row:
                resid = resid + e['val'] * PHI(e['col'])
            resid = resid - rhs
            if a in cfg:
                # periodic: ghost = value at the opposite end
                opp = tuple((n if side == 'low' else ONE) if k == a else T[k] for k in range(d))
                gv = PHI(G)
                okc = is_zero(gv - Rat.atom(('phi',) + opp))
                ob('B3', cons_g, okc, f"ghost {F.cstr(G)} = {fmt_rat(gv, 6)} expected the value of cell {F.cstr(opp)}", gfi.loc())
                okr = is_zero(resid)
                cons = cons_r
                if not okr:
                    # signature: consistent when the first and last cell of the axis have equal size
                    def f(i):
                        return Rat.atom(('f', AX[a], R(i)))
                    eq = {atom_id(('f', AX[a], R(n))): (f(n - 1) + f(1) - f(0))}
                    r2 = resid.subs(eq)
                    if is_zero(r2):
                        cons = cons_r + '[consistent-only-for-equal-end-cells]'
                ob('B3', cons, okr, f"periodic row of ghost {F.cstr(G)} applied to the wrapped ghost values leaves {fmt_rat(resid, 6)}", rfi.loc())
                continue
            # B3n: not periodic on this axis -> Robin
            A_, B_, C_ = (bc_atom(face, c, a, G, d) for c in 'abc')
            ob('B1', cons_g, is_zero(resid), f"row of ghost {F.cstr(G)} applied to the ghost formula leaves {fmt_rat(resid, 6)}", gfi.loc())
            # B2 documented relation
            lo, hi = (G, I) if side == 'low' else (I, G)
            delta = Rat.atom(('f', AX[a], R(I[a]))) - Rat.atom(('f', AX[a], R(I[a]) - 1))
            h = metric(cls, a, I)
            plo, phi_ = Rat.atom(('phi',) + lo), Rat.atom(('phi',) + hi)
            expect = A_ * (phi_ - plo) / (h * delta) + B_ * (phi_ + plo) / 2 - C_
            roweq = ZERO
            for e in row:
                roweq = roweq + e['val'] * Rat.atom(('phi',) + tuple(e['col']))
            roweq = roweq - rhs
            okk = is_zero(roweq - expect) or is_zero(roweq + expect)
            ob('B2', cons_r, okk, f"row of {F.cstr(G)}: {fmt_rat(roweq, 8)} ; documented relation: {fmt_rat(expect, 8)}", rfi.loc())
            # ghost formula solves the documented relation too
            gv = PHI(G)
            sub = {atom_id(('phi',) + G): gv}
            ex2 = expect.subs({k: v for k, v in sub.items()})
            ob('B2', cons_g, is_zero(ex2), f"documented relation evaluated at the ghost formula leaves {fmt_rat(ex2, 6)}", gfi.loc())
            if len(samples) < 2 and okk:
                samples.append(dict(rule='B2', cls=cls, face=face, ghost=fmt_rat(gv, 10), row=fmt_rat(roweq, 10)))
            # B7 scaling
            lam = Rat.atom(('lambda',))
            sc = {}
            for at in gv.atoms() | roweq.atoms():
                k = atom_key(at)
                if isinstance(k, tuple) and k[0] == 'bc':
                    sc[at] = lam * Rat.atom(k)
            ob('B7', cons_g, is_zero(gv.subs(sc) - gv), "ghost value under (a,b,c) -> lambda*(a,b,c)", gfi.loc())
            ob('B7', cons_r, is_zero(roweq.subs(sc) - lam * roweq), "row under (a,b,c) -> lambda*(a,b,c)", rfi.loc())
    # B9: interior cells have no boundary rows; edges / corners have rows
    ob('B9', f"boundary.{ri}/interior-rows", not w.matrix_row(M, Pg), "interior cell has no boundary row", rfi.loc())
    if d >= 2:
        for combo in itertools.product(*[[('lo', ZERO), ('in', w.t[k]), ('hi', w.N[k] + 1)] for k in range(d)]):
            ng = sum(1 for c in combo if c[0] != 'in')
            if ng < 2:
                continue
            cell = tuple(c[1] for c in combo)
            row = w.matrix_row(M, cell)
            diag = sum((e['val'] for e in row if all(is_zero(x - y) for x, y in zip(e['col'], cell))), ZERO)
            off = [e for e in row if not all(is_zero(x - y) for x, y in zip(e['col'], cell)) and not is_zero(e['val'])]
            ob('B9', f"boundary.{ri}/{'corner' if ng == d else 'edge'}", bool(row) and not is_zero(diag) and not off,
               f"cell {F.cstr(cell)}: {len(row)} entries, diagonal {fmt_rat(diag, 4)}, off-diagonal {len(off)}", rfi.loc())
    # B8 plotprofile (no periodic config needed)
    if not cfg:
        mi = sm.find_method('CellVariable', 'plotprofile')
        units.add('cell.CellVariable.plotprofile')
        pv = w.cell_variable('phi')
        try:
            w.ctx.events.clear()
            out = w.interp.call_function(mi, [pv], self_obj=pv)
            muts = [e for e in w.ctx.events if e[0] == 'input-mutated']
            ob('B8', f"cell.CellVariable.plotprofile/{d}D/read-only", not muts,
               f"plotprofile writes into the variable's own storage {muts[:2]}: the ghost layer no longer satisfies the boundary conditions afterwards" if muts
               else "reporting the profile leaves the value array (ghost layer included) untouched", mi.loc())
            prof = snap(out[-1])
            for (face, a, side) in SIDES:
                if a >= d:
                    continue
                n = w.N[a]
                G = tuple((ZERO if side == 'low' else n + 1) if k == a else w.t[k] for k in range(d))
                I = tuple((ONE if side == 'low' else n) if k == a else w.t[k] for k in range(d))
                v = prof.at(G)
                e = (Rat.atom(('phi',) + G) + Rat.atom(('phi',) + I)) / 2
                ob('B8', f"cell.CellVariable.plotprofile/{d}D/face={face}", is_zero(v - e), f"profile entry at {F.cstr(G)} = {fmt_rat(v, 6)}", mi.loc())
            vi = prof.at(tuple(w.t))
            ob('B8', f"cell.CellVariable.plotprofile/{d}D/interior", is_zero(vi - Rat.atom(('phi',) + tuple(w.t))), "interior entries are the cell values", mi.loc())
        except AbstractRaise as e:
            ob('B8', f"cell.CellVariable.plotprofile/{d}D", False, f"raises {e.exc}: {e.msg}", mi.loc())
    return dict(obs=obs, units=sorted(units), samples=samples, funcs=sorted(w.interp.funcs_seen))


# ----------------------------------------------------------------------------------------------
def _faces_in(node, attr_set):
    out = set()
    for n in ast.walk(node):
        if isinstance(n, ast.Attribute) and n.attr in attr_set and isinstance(n.value, ast.Attribute) \
                and isinstance(n.value.value, ast.Name) and n.value.value.id == 'BC':
            out.add(n.value.attr)
    return out


def global_rules(sm, rep, tier):
    # B4: syntactic guard/body agreement
    mod = sm.module('boundary')
    count = 0
    for fname, fi in mod.functions.items():
        if not (fname.startswith('cellValuesWithBoundaries') or fname.startswith('boundaryConditionsTerm')):
            continue
        rep.unit(f"boundary.{fname}")
        for node in ast.walk(fi.node):
            if isinstance(node, ast.If):
                tf = _faces_in(node.test, {'periodic'})
                if not tf:
                    continue
                body_faces = set()
                for st in node.body + node.orelse:
                    if isinstance(st, ast.If) and _faces_in(st.test, {'periodic'}):
                        continue
                    body_faces |= _faces_in(st, {'a', 'b', 'c'})
                count += 1
                pair_ok = tf in ({'left', 'right'}, {'bottom', 'top'}, {'back', 'front'})
                ok = pair_ok and body_faces <= tf
                rep.ob('B4', f"boundary.{fname}/guard={'+'.join(sorted(tf))}", ok,
                       f"block guarded by the periodic flags of {sorted(tf)} uses the coefficients of {sorted(body_faces)}",
                       f"src/pyfvtool/boundary.py:{node.lineno}")
    rep.floor('periodic-guarded blocks', count, 20)
    # B6 path rule (syntactic): last effectful statement of solvePDE / solveExplicitPDE is <var>.apply_BCs() on the returned variable
    from ..effects import last_call_before_return
    for module, fn in (('pdesolver', 'solvePDE'), ('pdesolver', 'solveExplicitPDE')):
        fi = sm.func(module, fn)
        ok, detail = last_call_before_return(fi, 'apply_BCs')
        rep.ob('B6', f"{module}.{fn}", ok, detail, fi.loc())
    ci = sm.cls('CellVariable')
    for meth in ('__init__', 'apply_BCs'):
        fi = ci.methods.get(meth)
        if fi is None:
            raise AnalysisError(f"anchor vanished: CellVariable.{meth}")
        src = ast.unparse(fi.node)
        ok = 'cellValuesWithBoundaries(' in src
        rep.ob('B6', f"cell.CellVariable.{meth}", ok, "ghost layer computed by cellValuesWithBoundaries" if ok else "no call of cellValuesWithBoundaries", fi.loc())


def finalize(sm, rep, tier, results):
    rep.floor('ghost-value implementations', len({o['construct'].split('/')[0] for o in rep.obs if o['construct'].startswith('boundary.cellValuesWithBoundaries')}), 6)
    rep.floor('boundary-row implementations', len({o['construct'].split('/')[0] for o in rep.obs if o['construct'].startswith('boundary.boundaryConditionsTerm')}), 6)
    rep.floor('B1+B2 obligations', sum(1 for o in rep.obs if o['rule'] in ('B1', 'B2')), 150)
    from ..alg import Rat, is_zero
    a, dx, p0, p1, c = (Rat.atom(('ctl', k)) for k in 'a d 0 1 c'.split())
    good = (c - p1 * (a / dx)) / (-a / dx)
    bad = (c - p1 * (a / dx)) / (a / dx)
    rep.control('B1 fires on a ghost formula with a flipped sign', is_zero(a * (p1 - good) / dx - c) and not is_zero(a * (p1 - bad) / dx - c))
