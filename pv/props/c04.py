"""C04 - solvePDE solves exactly the system its term list and BCs define, in place.

pdesolver.solvePDE / solveMatrixPDE are interpreted symbolically with a *recording* solver in place of
spsolve / externalsolver: the cached boundary system (interpreted boundaryConditionsTerm), symbolic matrix terms
(diffusionTerm, linearSourceTerm), vector terms (constantSourceTerm) and a (matrix, vector) pair are passed in,
and the system that reaches the solver is compared row by row (generic, boundary-adjacent and ghost cells) with
the hand-assembled sum.

 S1  the cached boundary system and the terms handed in are not written (fresh accumulators)
 S2  every term is added exactly once and unscaled: M_solver == Mbc + sum(matrix terms), RHS_solver == RHSbc + sum(vector terms)
     (also for negated and scaled terms built by the caller)
 S3  exactly one solver call with positional (M, RHS); spsolve and externalsolver receive the identical system
 S4  the solution vector is reshaped in C order to dims+2, stored on the variable passed in, ghost values are re-imposed
     from the boundary conditions, and that same object is returned
 S5  solveMatrixPDE: one solver call with the given (M, RHS); new variable holding the reshaped solution
 S6  every term builder emits rows for interior cells only (ghost rows empty); boundary rows are disjoint from them (C03.B9)
 S9  sources enter linearly and exactly: linearSourceTerm(beta) contributes beta_P to the diagonal of row P and
     constantSourceTerm(gamma) contributes gamma_P to its right-hand side - nothing else, nothing rounded
 S7  a variable returned by solveExplicitPDE can be passed to solvePDE (cached boundary term available)
 S8  "the variable's boundary equations" are the current ones: after `BCs.<face>.c = new` on any single face, the
     boundary row handed to the solver carries the new datum (exercises the real dirty-flag properties; see also C09)
"""
from __future__ import annotations
from ..alg import Rat, atom_id, is_zero, fmt_rat
from ..srcmodel import SourceModel, AnalysisError, MESH_CLASSES
from ..arrays import AbstractRaise, R, ZERO, ONE, snap, Arr, Box, shape_prod
from ..model import World, AX, DIM, atom_array
from ..interp import ASparse, AObj, OpaqueFn, PyCallable
from .. import facts as F
from .c12 import flat_vector

PROP = 'C04'
from . import lemmas as _lemmas
LEMMAS = [_lemmas.PROTOCOL, _lemmas.PERIODIC]
RULES = {'S1': 'cached boundary system and terms untouched', 'S2': 'solver system == boundary system + each term once', 'S3': 'one solver call, same system for both solvers',
         'S4': 'result reshaped (C order), stored in place, ghosts re-imposed, same object returned', 'S5': 'solveMatrixPDE', 'S6': 'term rows are interior rows only', 'S9': 'source terms contribute exactly beta_P / gamma_P',
         'S7': 'explicit-solver result usable by solvePDE', 'S8': 'boundary data edited after construction are the ones solved with (every face)'}
ASSUMPTIONS = ['spsolve / the external solver return the solution of M x = RHS (direct-solver accuracy not decided)',
               'scipy sparse `+=` rebinds, ndarray `+=` writes in place (kind lattice of the interpreter)',
               'linearity in sources / boundary data / previous values is the corollary of S1-S4']


def jobs(tier):
    return [(c, tier) for c in MESH_CLASSES]


def make_solve_world(sm, cls):
    w = World(sm, cls)
    bc = w.boundary_conditions()
    phi = w.cell_variable('phi', bc)
    phi.attrs['BCsTerm_precalc'] = True
    Mbc, Rbc = w.call('boundary', 'boundaryConditionsTerm', bc)
    Rbc.frozen = 'phi._BCsTerm[1]'
    phi.attrs['_BCsTerm'] = (Mbc, Rbc)
    D = w.face_variable('D')
    terms = {}
    terms['M1'] = w.call('diffusion', 'diffusionTerm', D)
    terms['M2'] = w.call('source', 'linearSourceTerm', w.cell_variable('beta'))
    terms['R1'] = w.call('source', 'constantSourceTerm', w.cell_variable('gamma'))
    terms['R2'] = w.call('source', 'constantSourceTerm', w.cell_variable('gamma2'))
    terms['R1'].frozen = 'term.R1'
    terms['R2'].frozen = 'term.R2'
    rec = []

    def solver(name):
        def fn(args, kwargs):
            rec.append((name, list(args), dict(kwargs)))
            return Box(flat_vector(w, 'sol'))
        return fn
    w.interp.solver_hook = lambda name, args, kwargs: solver('spsolve')(args, kwargs)
    w.rec = rec
    w.ext = PyCallable(solver('external'), 'externalsolver')
    w.bc = bc
    # the reference boundary system is built by a call of its own: the objects cached on the variable may legitimately be used
    # as scratch space by solvePDE, the reference must not alias them
    w.Mbc, w.Rbc = w.call('boundary', 'boundaryConditionsTerm', bc)
    return w, phi, terms, rec


def _cells(w, tier):
    cells = F.cell_classes(w, 'quick', mode='axes')
    d = w.dim
    ghosts = []
    for a in range(d):
        for g in (ZERO, w.N[a] + 1):
            ghosts.append(tuple(g if k == a else w.t[k] for k in range(d)))
    if d >= 2:
        ghosts.append(tuple(ZERO for _ in range(d)))
    return cells, ghosts


def _rowsum(w, mats, P):
    acc = {}
    for coef, M in mats:
        for k, (c, v) in F.row_by_col(w, w.matrix_row(M, P)).items():
            acc[k] = acc.get(k, ZERO) + coef * v
    return {k: v for k, v in acc.items() if not is_zero(v)}


def job(args):
    cls, tier = args
    sm = SourceModel()
    obs, samples, units = [], [], set()
    fs = sm.func('pdesolver', 'solvePDE')
    units.update({'pdesolver.solvePDE', 'pdesolver.solveMatrixPDE', 'cell.CellVariable.apply_BCs'})

    def ob(rule, construct, ok, detail='', loc=''):
        obs.append(dict(rule=rule, construct=construct, ok=bool(ok), detail=(f"[{cls}] " + str(detail))[:1400], loc=loc or fs.loc(), nontrivial=True))
    half = Rat.const(1) / 2
    for solver_kind in ('external', 'spsolve'):
        w, phi, T, rec = make_solve_world(sm, cls)
        cells, ghosts = _cells(w, tier)
        import ast
        negM1 = w.interp.neg(T['M1'])
        sclR2 = w.interp.binop(ast.Mult(), Rat.const(3), T['R2'])
        term_list = [T['M1'], T['R1'], (T['M2'], T['R2']), negM1, sclR2, T['M2']]
        exp_M = [(ONE, w.Mbc), (ONE, T['M1']), (ONE, T['M2']), (Rat.const(-1), T['M1']), (ONE, T['M2'])]
        exp_R = [(ONE, w.Rbc), (ONE, T['R1']), (ONE, T['R2']), (Rat.const(3), T['R2'])]
        w.ctx.events.clear()
        w.interp.frozen_lists = {id(term_list): 'term.list'}
        terms_before = list(term_list)
        construct = f"pdesolver.solvePDE/{solver_kind}"
        try:
            if solver_kind == 'external':
                res = w.call('pdesolver', 'solvePDE', phi, term_list, w.ext)
            else:
                res = w.call('pdesolver', 'solvePDE', phi, term_list)
        except AbstractRaise as e:
            ob('S2', construct, False, f"raises {e.exc}: {e.msg}")
            continue
        # S3
        ok3 = len(rec) == 1 and rec[0][0] == solver_kind and len(rec[0][1]) == 2 and not rec[0][2]
        ob('S3', construct, ok3, f"solver calls recorded: {[(r[0], len(r[1]), sorted(r[2])) for r in rec]}")
        if not ok3:
            continue
        Ms, Rs = rec[0][1]
        if not isinstance(Ms, ASparse):
            ob('S2', construct, False, f"first solver argument is not the matrix: {Ms!r}")
            continue
        # S2 rows
        for P in cells + ghosts:
            got = _rowsum(w, [(ONE, Ms)], P)
            exp = _rowsum(w, exp_M, P)
            okm = set(got) == set(exp) and all(is_zero(got[k] - exp[k]) for k in got)
            ob('S2', construct + '/matrix', okm, f"row {F.cstr(P)}: solver matrix {({k: fmt_rat(v, 4) for k, v in got.items()})} vs assembled {({k: fmt_rat(v, 4) for k, v in exp.items()})}" if not okm else f"row {F.cstr(P)}")
            gr = w.vector_at(Rs, P)
            er = ZERO
            for c, V in exp_R:
                er = er + c * w.vector_at(V, P)
            ob('S2', construct + '/rhs', is_zero(gr - er), f"RHS at {F.cstr(P)}: solver {fmt_rat(gr, 6)} vs assembled {fmt_rat(er, 6)}")
        # S1
        # S1: the terms handed in are never written.  The variable's own cached boundary system may be used as scratch space
        # *during* the solve (an accumulator without a protective copy) as long as the cache the variable is left with is the
        # boundary system of its current conditions again - what the next solve, a copy or a reader of _BCsTerm sees
        muts = [e for e in w.ctx.events if e[0] == 'input-mutated' and str(e[1]).startswith('term.')]
        ob('S1', construct, not muts, f"in-place writes into the terms handed in: {muts[:3]}" if muts else "no write into the terms handed in")
        ct = phi.attrs.get('_BCsTerm')
        try:
            okc = isinstance(ct, tuple) and len(ct) == 2 and isinstance(ct[0], ASparse)
            whyc = 'the variable is left without a cached boundary system' if not okc else ''
            if okc:
                for P in cells[:2] + ghosts[:2]:
                    gotc = _rowsum(w, [(ONE, ct[0])], P)
                    expc = _rowsum(w, [(ONE, w.Mbc)], P)
                    rc, re_ = w.vector_at(ct[1], P), w.vector_at(w.Rbc, P)
                    if set(gotc) != set(expc) or any(not is_zero(gotc[k] - expc[k]) for k in gotc) or not is_zero(rc - re_):
                        okc, whyc = False, f"row {F.cstr(P)} of the cached boundary system after the solve: RHS {fmt_rat(rc, 4)} (boundary system: {fmt_rat(re_, 4)}), matrix {'ok' if set(gotc) == set(expc) and all(is_zero(gotc[k] - expc[k]) for k in gotc) else 'differs'}"
                        break
            ob('S1', construct + '/cache-after', okc, whyc or "after the solve the cached boundary system is the boundary system of the variable's conditions (no term left in it)")
        except AnalysisError as e:
            raise AnalysisError(f"cached boundary system after solvePDE not readable: {e}")
        same_list = len(term_list) == len(terms_before) and all(x is y for x, y in zip(term_list, terms_before))
        ob('S1', construct + '/term-list', same_list, "the caller's term list is unchanged (it can be reused in a time loop)" if same_list
           else f"the caller's list of equation terms was changed by solvePDE: {len(terms_before)} -> {len(term_list)} entries")
        same_cache = phi.attrs.get('_BCsTerm') is not None
        # S4
        ob('S4', construct + '/identity', res is phi, "the variable passed in is returned" if res is phi else f"returns {res!r}")
        val = snap(phi.attrs['_value'])
        okshape = val.ndim == w.dim and all(is_zero(s - e) for s, e in zip(val.shape, w.full_shape()))
        ob('S4', construct + '/shape', okshape, f"value array shape {tuple(map(str, val.shape))}")
        if okshape:
            for P in cells:
                v = val.at(P)
                ob('S4', construct + '/interior', is_zero(v - Rat.atom(('sol',) + tuple(P))), f"cell {F.cstr(P)} holds {fmt_rat(v)}")
            interior = Box(Arr(tuple(w.N), lambda idx: Rat.atom(('sol',) + tuple(i + 1 for i in idx))))
            expect = snap(w.call('boundary', 'cellValuesWithBoundaries', interior, w.bc))
            for G in ghosts[:2 * w.dim]:
                ob('S4', construct + '/ghost', is_zero(val.at(G) - expect.at(G)), f"ghost {F.cstr(G)} = {fmt_rat(val.at(G), 5)}")
        if solver_kind == 'external' and len(samples) < 1:
            P = cells[0]
            samples.append(dict(rule='S2', cls=cls, row=F.cstr(P), solver_row={str(k): fmt_rat(v, 6) for k, v in _rowsum(w, [(ONE, Ms)], P).items()}))
    # ---- S2 for other orders of the term list (thorough tier): "any list of terms in any order, sign and scaling"
    if tier != 'quick':
        import ast as _ast
        import itertools as _it
        names = ['M1', 'R1', 'PAIR', 'negM1', '3R2', 'M2']
        orders = [names[::-1], ['PAIR', 'M1', 'M2', 'R1', '3R2', 'negM1'], ['R1', '3R2', 'PAIR', 'M1', 'negM1', 'M2'],
                  ['negM1', 'PAIR', 'R1', 'M2', 'M1', '3R2'], ['M2', 'M1', 'negM1', 'PAIR', 'PAIR', 'R1']]
        for order in orders:
            w, phi, T, rec = make_solve_world(sm, cls)
            cells, ghosts = _cells(w, tier)
            item = {'M1': T['M1'], 'R1': T['R1'], 'PAIR': (T['M2'], T['R2']), 'negM1': w.interp.neg(T['M1']),
                    '3R2': w.interp.binop(_ast.Mult(), Rat.const(3), T['R2']), 'M2': T['M2']}
            cM = {'M1': [(ONE, T['M1'])], 'PAIR': [(ONE, T['M2'])], 'negM1': [(Rat.const(-1), T['M1'])], 'M2': [(ONE, T['M2'])]}
            cR = {'R1': [(ONE, T['R1'])], 'PAIR': [(ONE, T['R2'])], '3R2': [(Rat.const(3), T['R2'])]}
            exp_M = [(ONE, w.Mbc)] + [x for n in order for x in cM.get(n, [])]
            exp_R = [(ONE, w.Rbc)] + [x for n in order for x in cR.get(n, [])]
            construct = 'pdesolver.solvePDE/term-order=' + ','.join(order)
            try:
                w.call('pdesolver', 'solvePDE', phi, [item[n] for n in order], w.ext)
            except AbstractRaise as e:
                ob('S2', construct, False, f"raises {e.exc}: {e.msg}")
                continue
            if len(rec) != 1 or len(rec[0][1]) != 2 or not isinstance(rec[0][1][0], ASparse):
                ob('S2', construct, False, f"solver calls recorded: {[(r[0], len(r[1])) for r in rec]}")
                continue
            Ms, Rs = rec[0][1]
            for P in cells[:3] + ghosts[:2]:
                got = _rowsum(w, [(ONE, Ms)], P)
                exp = _rowsum(w, exp_M, P)
                okm = set(got) == set(exp) and all(is_zero(got[k] - exp[k]) for k in got)
                gr = w.vector_at(Rs, P)
                er = ZERO
                for c, V in exp_R:
                    er = er + c * w.vector_at(V, P)
                ob('S2', construct, okm and is_zero(gr - er), f"row {F.cstr(P)}: matrix {'ok' if okm else 'differs'}, RHS solver {fmt_rat(gr, 5)} vs assembled {fmt_rat(er, 5)}")
    # ---- S5
    fm = sm.func('pdesolver', 'solveMatrixPDE')
    w, phi, T, rec = make_solve_world(sm, cls)
    cells, ghosts = _cells(w, tier)
    try:
        out = w.call('pdesolver', 'solveMatrixPDE', w.mesh, T['M1'], T['R1'], w.ext)
        ok5 = len(rec) == 1 and rec[0][1][0] is T['M1'] and rec[0][1][1] is T['R1'] and not rec[0][2]
        ob('S5', 'pdesolver.solveMatrixPDE', ok5, f"solver calls {[(r[0], len(r[1])) for r in rec]}; arguments are the given M, RHS: {ok5}", fm.loc())
        isv = isinstance(out, AObj) and out.cls == 'CellVariable'
        ob('S5', 'pdesolver.solveMatrixPDE/result', isv, f"returns {out!r}", fm.loc())
        if isv:
            val = snap(out.attrs['_value'])
            for P in cells + ghosts[:2]:
                ob('S5', 'pdesolver.solveMatrixPDE/values', is_zero(val.at(P) - Rat.atom(('sol',) + tuple(P))), f"cell {F.cstr(P)} holds {fmt_rat(val.at(P))}", fm.loc())
    except AbstractRaise as e:
        ob('S5', 'pdesolver.solveMatrixPDE', False, f"raises {e.exc}: {e.msg}", fm.loc())
    # ---- S6 interior rows only
    wq = World(sm, cls)
    cells, ghosts = _cells(wq, tier)
    D = wq.face_variable('D')
    phi2 = wq.cell_variable('phi')
    builders = [('diffusion', 'diffusionTerm', (D,)), ('advection', 'convectionTerm', (D,)), ('advection', 'convectionUpwindTerm', (D,)),
                ('advection', 'convectionTVDupwindRHSTerm', (D, phi2, OpaqueFn('FL'))), ('calculus', 'divergenceTerm', (D,)),
                ('source', 'linearSourceTerm', (phi2,)), ('source', 'constantSourceTerm', (phi2,))]
    for module, fn, a in builders:
        impl = fn
        try:
            impl = F.implementer(sm, module, fn, cls)[0] or fn
        except AnalysisError:
            pass
        units.add(f"{module}.{impl}")
        fi = sm.func(module, impl) if sm.has_func(module, impl) else sm.func(module, fn)
        try:
            r = wq.call(module, fn, *a)
        except AbstractRaise as e:
            ob('S6', f"{module}.{impl}", False, f"raises {e.exc}", fi.loc())
            continue
        bad = []
        for G in ghosts:
            if isinstance(r, ASparse):
                if r.issues:
                    bad.append('layout issues')
                    break
                if wq.matrix_row(r, G):
                    bad.append(F.cstr(G))
            else:
                if not is_zero(wq.vector_at(r, G)):
                    bad.append(F.cstr(G))
        ob('S6', f"{module}.{impl}", not bad, f"entries in ghost rows {bad}" if bad else f"no entries in the {len(ghosts)} ghost-row classes", fi.loc())
        # S9: "the solution depends linearly on sources and previous-step values": the source builders hand the solver exactly
        # beta_P on the diagonal / gamma_P on the right-hand side of cell P (no rounding, truncation or cross-cell coupling)
        if module == 'source':
            for P in cells:
                want = Rat.atom(('phi',) + tuple(P))
                if isinstance(r, ASparse):
                    row = F.row_by_col(wq, wq.matrix_row(r, P))
                    kP = tuple(str(c) for c in P)
                    got = row.get(kP, (None, Rat.const(0)))[1]
                    others = [k for k, (c, v) in row.items() if k != kP and not is_zero(v)]
                else:
                    got, others = wq.vector_at(r, P), []
                ob('S9', f"{module}.{impl}", is_zero(got - want) and not others,
                   f"cell {F.cstr(P)}: contributes {fmt_rat(got, 5)}" + (f", off-diagonal {others[:2]}" if others else '') + f" (expected exactly {fmt_rat(want)})", fi.loc())
    # ---- S8: boundary data edited after construction reach the solver, face by face (through the real flag properties)
    from ..model import FACES
    from ..alg import atom_key
    ws8 = World(sm, cls)
    cells8, ghosts8 = _cells(ws8, tier)
    Mt8 = ws8.call('source', 'linearSourceTerm', ws8.cell_variable('beta'))
    for fi_, face in enumerate(FACES[:2 * ws8.dim]):
        bc8 = ws8.boundary_conditions()
        v8 = ws8.interp.instantiate('CellVariable', [ws8.mesh, Rat.atom(('init',)), bc8])
        ws8.interp.set_attr(bc8.attrs[face], 'c', Rat.atom(('cnew',)), None)
        rec8 = []
        ext8 = PyCallable(lambda a, k: (rec8.append(a), Box(flat_vector(ws8, 'sol')))[1])
        ws8.interp.solver_hook = lambda name, a, k: (rec8.append(a), Box(flat_vector(ws8, 'sol')))[1]     # whichever solver is called
        try:
            ws8.call('pdesolver', 'solvePDE', v8, [Mt8], ext8)
            G = ghosts8[fi_]
            if not rec8:
                ob('S3', f"pdesolver.solvePDE/edited-BC/face={face}", False, "solvePDE returned without handing the system to any solver")
                continue
            r8 = ws8.vector_at(rec8[0][1], G)
            seen = any(isinstance(atom_key(a), tuple) and atom_key(a)[0] == 'cnew' for a in r8.atoms())
            ob('S8', f"pdesolver.solvePDE/edited-BC/face={face}", seen, f"RHS of the boundary row {F.cstr(G)} handed to the solver after `BCs.{face}.c = cnew`: {fmt_rat(r8, 5)}")
        except AbstractRaise as e:
            ob('S8', f"pdesolver.solvePDE/edited-BC/face={face}", False, f"raises {e.exc}: {e.msg}")
    # ---- S7
    we, phie, Te, rece = make_solve_world(sm, cls)
    fe = sm.func('pdesolver', 'solveExplicitPDE')
    try:
        new = we.call('pdesolver', 'solveExplicitPDE', phie, Rat.atom(('dt',)), flat_vector(we, 'rhs'))
        try:
            we.call('pdesolver', 'solvePDE', new, [Te['M1']], we.ext)
            ob('S7', 'pdesolver.solveExplicitPDE->solvePDE', len(rece) == 1, "the explicit-solver result is accepted by solvePDE", fe.loc())
        except AbstractRaise as e:
            ob('S7', 'pdesolver.solveExplicitPDE->solvePDE', False, f"solvePDE on the variable returned by solveExplicitPDE raises {e.exc}: {e.msg}", fe.loc())
    except AbstractRaise as e:
        ob('S7', 'pdesolver.solveExplicitPDE->solvePDE', False, f"solveExplicitPDE raises {e.exc}: {e.msg}", fe.loc())
    return dict(obs=obs, units=sorted(units), samples=samples)


def global_rules(sm, rep, tier):
    # reshape order must be C (syntactic back-up of S4): no order= keyword other than 'C'
    import ast
    fi = sm.func('pdesolver', 'solvePDE')
    n = 0
    for node in ast.walk(fi.node):
        if isinstance(node, ast.Call) and ((isinstance(node.func, ast.Attribute) and node.func.attr == 'reshape') or (isinstance(node.func, ast.Name) and node.func.id == 'reshape')):
            n += 1
            bad = [k for k in node.keywords if k.arg == 'order' and not (isinstance(k.value, ast.Constant) and k.value.value == 'C')]
            rep.ob('S4', 'pdesolver.solvePDE/reshape-order', not bad, "reshape uses C order" if not bad else "reshape with a non-C order", f"src/pyfvtool/pdesolver.py:{node.lineno}")
    rep.floor('reshape calls in solvePDE', n, 1)


def finalize(sm, rep, tier, results):
    rep.floor('S2 row obligations', sum(1 for o in rep.obs if o['rule'] == 'S2'), 200)
    rep.floor('term builders checked for interior-only rows', len({o['construct'] for o in rep.obs if o['rule'] == 'S6'}), 40)
    # positive control: the row comparison of S2 separates "added once" from "added twice" / "subtracted"
    m_, t_ = Rat.atom(('ctl', 'Mbc')), Rat.atom(('ctl', 'term'))
    rep.control('S2 separates M+T from M+2T and M-T', is_zero((m_ + t_) - (m_ + t_)) and not is_zero((m_ + 2 * t_) - (m_ + t_)) and not is_zero((m_ - t_) - (m_ + t_)))
