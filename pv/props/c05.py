"""C05 - implicit matrix terms and the explicit gradient/mean/divergence chain agree.

For every grid class and every row class (generic cell, cells next to each boundary; all classes in the
thorough tier) the stencil row extracted from the matrix builder, applied to a symbolic field (ghost
values included), is compared as an exact rational identity with the value that the *interpreted*
chain divergenceTerm(coef * gradientTerm/linearMean/upwindMean(phi)) produces for the same cell.

 E1  diffusionTerm(D)            == divergenceTerm(D*gradientTerm(phi))
 E2  convectionTerm(u)           == divergenceTerm(u*linearMean(phi))
 E3  convectionUpwindTerm(u)     == divergenceTerm(u*upwindMean(phi,u))        (all sign cases of u per face)
 E3u convectionUpwindTerm(u,uu)  == divergenceTerm(u*upwindMean(phi,uu))       (uu != 0 on the faces involved)
 E4  TVD right-hand side vanishes identically for a zero limiter
 E5  unit limiter, uniform grid: M_upwind*phi - RHS_tvd == M_central*phi  (rows away from the boundary)
 E4u/E5u  the same two identities when the optional upwind-direction field u_upwind is passed to both the upwind matrix
     and the TVD right-hand side (faces with u_upwind == 0 excluded) - the dispatchers must hand it on for every class
"""
from __future__ import annotations
from ..alg import Rat, atom_id, atom_key, is_zero, case_zero, indicator_groups, fmt_rat, map_atoms
from ..srcmodel import SourceModel, AnalysisError, MESH_CLASSES
from ..arrays import AbstractRaise, R, ZERO, ONE
from ..model import World, AX
from ..interp import ASparse, OpaqueFn
from .. import facts as F

PROP = 'C05'
RULES = {
    'E1': 'diffusion matrix row == div(D*grad phi)',
    'E2': 'central convection row == div(u*linearMean phi)',
    'E3': 'upwind row == div(u*upwindMean(phi,u))',
    'E3u': 'upwind row with separate upwind field == div(u*upwindMean(phi,uu)) for uu != 0',
    'E4': 'TVD RHS == 0 for FL == 0',
    'E5': 'FL == 1 on uniform grids: upwind - TVD == central',
    'E4u': 'E4 with a separate upwind-direction field', 'E5u': 'E5 with a separate upwind-direction field (u_upwind != 0)',
}
ASSUMPTIONS = ['exact arithmetic (rounding not decided)',
               'E3u: faces with u_upwind exactly 0 are excluded (tie), as stated in DESIGN.md',
               'E5 uses the (N, L) constructor form, i.e. uniform spacing, and rows at least 3 cells away from a boundary']


def jobs(tier):
    from ..model import DIM as _D
    out = []
    for c in MESH_CLASSES:
        if _D[c] == 3:
            # split the expensive 3-D classes by rule so that the pool is balanced
            for grp in (('E1',), ('E2',), ('E3',), ('E3u',), ('E4', 'E5')):
                out.append((c, tier, None, grp))
        else:
            out.append((c, tier))
    from ..model import DIM
    for c in MESH_CLASSES:
        # integer-dtype face positions and cell values (legal inputs): nothing may be truncated on the way
        out.append((c, tier, F.QUICK_SMALL_SIZES[DIM[c]][-1], None, 'int'))
    if tier == 'quick':
        for c in MESH_CLASSES:
            for sz in F.QUICK_SMALL_SIZES[DIM[c]]:
                out.append((c, tier, sz))
    if tier != 'quick':
        # every cell count below the symbolic bound (N >= 8): concrete sizes, every cell, symbolic data
        from ..model import DIM
        for c in MESH_CLASSES:
            for sz in F.SMALL_SIZES[DIM[c]]:
                out.append((c, tier, sz))
    return out


def apply_row(row, field):
    s = ZERO
    for e in row:
        s = s + e['val'] * Rat.atom((field,) + tuple(e['col']))
    return s


def zero_excluding_ties(r: Rat, tie_head):
    """zero test with the case split, but without the ==0 case for indicator arguments whose atom head
    is tie_head"""
    from ..alg import Poly, _ATOM_ID, _product
    p = r.num
    if p.is_zero():
        return True
    groups = indicator_groups(p)
    if not groups:
        return False
    gkeys = list(groups)
    from itertools import product
    for choice in product(('>0', '<0', '==0'), repeat=len(gkeys)):
        skip = False
        mp = {}
        for gk, rel in zip(gkeys, choice):
            head = None
            if isinstance(gk, Rat) and len(gk.fac) == 1:
                k = atom_key(next(iter(gk.atoms())))
                head = k[0] if isinstance(k, tuple) else None
            if rel == '==0' and head == tie_head:
                skip = True
                break
            for rr in ('>0', '<0', '==0'):
                aid = _ATOM_ID.get(('ind', rr, gk))
                if aid is not None:
                    mp[aid] = Poly.const(1 if rr == rel else 0)
            if rel == '==0' and isinstance(gk, Rat) and gk.is_poly() and len(gk.num.t) == 1:
                (m, _c), = gk.num.t.items()
                if len(m) == 1 and m[0][1] == 1:
                    mp[m[0][0]] = Poly({})
        if skip:
            continue
        if not p.subs(mp).is_zero():
            return False
    return True


def job(args):
    cls, tier = args[0], args[1]
    sizes = args[2] if len(args) > 2 else None
    only = set(args[3]) if len(args) > 3 and args[3] else None
    dtype = args[4] if len(args) > 4 else 'real'
    sm = SourceModel()
    w = World(sm, cls, sizes=sizes, int_data=(dtype == 'int'))
    obs, samples, units = [], [], set()
    szt = (f" sizes={sizes}" if sizes else '') + (' dtype=int' if dtype == 'int' else '')

    def ob(rule, construct, ok, detail='', loc=''):
        obs.append(dict(rule=rule, construct=construct, ok=bool(ok), detail=(str(detail) + szt)[:1500], loc=loc, nontrivial=True))
    phi = w.cell_variable('phi')
    D = w.face_variable('D')
    u = w.face_variable('u')
    uu = w.face_variable('uu')
    cells = F.cell_classes(w, tier, mode='axes' if tier == 'quick' else 'product')
    if w.dim == 3 and tier != 'quick' and w.symbolic:
        cells = F.cell_classes(w, 'quick', mode='product')
    chains = [
        ('E1', 'diffusion', 'diffusionTerm', (D,), lambda: w.call('calculus', 'divergenceTerm', _mul(w, D, w.call('calculus', 'gradientTerm', phi))), None),
        ('E2', 'advection', 'convectionTerm', (u,), lambda: w.call('calculus', 'divergenceTerm', _mul(w, u, w.call('averaging', 'linearMean', phi))), None),
        ('E3', 'advection', 'convectionUpwindTerm', (u,), lambda: w.call('calculus', 'divergenceTerm', _mul(w, u, w.call('averaging', 'upwindMean', phi, u))), None),
        ('E3u', 'advection', 'convectionUpwindTerm', (u, uu), lambda: w.call('calculus', 'divergenceTerm', _mul(w, u, w.call('averaging', 'upwindMean', phi, uu))), 'uu'),
    ]
    for rule, module, disp, cargs, chain, tie in chains:
        if only and rule not in only:
            continue
        impl, proj, call, line = F.implementer(sm, module, disp, cls)
        fi = sm.func(module, impl)
        units.add(f"{module}.{impl}")
        loc = fi.loc()
        construct = f"{module}.{disp}[{cls}]->{impl}"
        try:
            M = w.call(module, disp, *cargs)
            rhs = chain()
        except AbstractRaise as e:
            ob(rule, construct, False, f"raises {e.exc}: {e.msg}", loc)
            continue
        if not isinstance(M, ASparse) or M.issues:
            ob(rule, construct, False, f"matrix builder layout issues: {getattr(M, 'issues', M)}", loc)
            continue
        for P in cells:
            lhs = apply_row(w.matrix_row(M, P), 'phi')
            r = w.vector_at(rhs, P)
            d = lhs - r
            ok = zero_excluding_ties(d, tie) if tie else is_zero(d)
            ob(rule, construct, ok, f"cell {F.cstr(P)}: matrix row applied to phi differs from the chain by {fmt_rat(d, 8)}" if not ok else f"cell {F.cstr(P)}", loc)
            if ok and len(samples) < 2 and rule == 'E3':
                samples.append(dict(rule=rule, cls=cls, cell=F.cstr(P), matrix_row_times_phi=fmt_rat(lhs, 10), chain=fmt_rat(r, 10)))
    for nm in ('gradientTerm', 'divergenceTerm'):
        units.add('calculus.' + nm)
    for nm in ('linearMean', 'upwindMean'):
        units.add('averaging.' + nm)
    if only and not ({'E4', 'E5'} & only):
        return dict(obs=obs, units=sorted(units), samples=samples, funcs=sorted(w.interp.funcs_seen))
    # ---- E4
    impl, proj, call, line = F.implementer(sm, 'advection', 'convectionTVDupwindRHSTerm', cls)
    fi = sm.func('advection', impl)
    units.add(f"advection.{impl}")
    construct = f"advection.{impl}"

    def fl_to(c):
        def fn(key):
            if isinstance(key, tuple) and key[0] == 'fn' and key[1] == 'FL':
                return Rat.const(c)
            return None
        return fn
    # ---- E4 / E4u: zero limiter (with and without a separate upwind-direction field)
    for rule, extra in (('E4', ()), ('E4u', (uu,))):
        try:
            tv = w.call('advection', 'convectionTVDupwindRHSTerm', u, phi, OpaqueFn('FL'), *extra)
        except AbstractRaise as e:
            ob(rule, construct, False, f"raises {e.exc}: {e.msg}", fi.loc())
            continue
        for P in cells:
            v = w.vector_at(tv, P)
            has_fl = any(isinstance(atom_key(a), tuple) and atom_key(a)[0] == 'fn' and atom_key(a)[1] == 'FL' for a in v.atoms())
            v0 = map_atoms(v, fl_to(0))
            ob(rule, construct, is_zero(v0), f"cell {F.cstr(P)}: TVD RHS with FL=0 is {fmt_rat(v0, 8)}" if not is_zero(v0) else f"cell {F.cstr(P)} (limiter atoms present: {has_fl})", fi.loc())
    if sizes:
        return dict(obs=obs, units=sorted(units), samples=samples, funcs=sorted(w.interp.funcs_seen))
    # ---- E5 / E5u uniform grid
    wu = World(sm, cls, uniform=True)
    phiu = wu.cell_variable('phi')
    uu_ = wu.face_variable('u')
    dir_ = wu.face_variable('uu')
    P = tuple(wu.t)
    for rule, extra in (('E5', ()), ('E5u', (dir_,))):
        try:
            Mup = wu.call('advection', 'convectionUpwindTerm', uu_, *extra)
            Mce = wu.call('advection', 'convectionTerm', uu_)
            tvu = wu.call('advection', 'convectionTVDupwindRHSTerm', uu_, phiu, OpaqueFn('FL'), *extra)
        except AbstractRaise as e:
            ob(rule, construct, False, f"raises {e.exc}: {e.msg}", fi.loc())
            continue
        if isinstance(Mup, ASparse) and isinstance(Mce, ASparse) and not Mup.issues and not Mce.issues:
            lhs = apply_row(wu.matrix_row(Mup, P), 'phi') - map_atoms(wu.vector_at(tvu, P), fl_to(1))
            rhs = apply_row(wu.matrix_row(Mce, P), 'phi')
            d = lhs - rhs
            ok = is_zero(d) if not extra else zero_excluding_ties(d, 'uu')
            ob(rule, construct, ok, f"generic cell: upwind - TVD(FL=1) - central = {fmt_rat(d, 8)}" if not ok else 'generic cell, uniform spacing', fi.loc())
            # per axis a, with only the velocity component along a non-zero: the identity also holds in cells that are generic
            # along a but lie in the first / last row along another axis (the limiter corrections of the a-faces there are
            # interior corrections; a correction zeroed along the wrong axis shows here)
            if wu.dim > 1:
                def only_axis(expr, a):
                    def fn(key):
                        if isinstance(key, tuple) and key and key[0] in ('u', 'uu') and len(key) > 1 and key[1] != AX[a]:
                            return Rat.const(0)
                        return None
                    return map_atoms(expr, fn)
                for a_ in range(wu.dim):
                    for b_ in range(wu.dim):
                        if b_ == a_:
                            continue
                        for pos, nm in ((ONE, 'first'), (wu.N[b_], 'last')):
                            Pc = tuple(pos if k == b_ else wu.t[k] for k in range(wu.dim))
                            lhs_c = apply_row(wu.matrix_row(Mup, Pc), 'phi') - map_atoms(wu.vector_at(tvu, Pc), fl_to(1))
                            d_c = only_axis(lhs_c - apply_row(wu.matrix_row(Mce, Pc), 'phi'), a_)
                            ok_c = is_zero(d_c) if not extra else zero_excluding_ties(d_c, 'uu')
                            ob(rule, construct, ok_c, (f"cell {F.cstr(Pc)} ({nm} row along {AX[b_]}), velocity along {AX[a_]} only: upwind - TVD(FL=1) - central = {fmt_rat(d_c, 8)}"
                                                       if not ok_c else f"cell {F.cstr(Pc)}, velocity along {AX[a_]} only"), fi.loc())
        else:
            ob(rule, construct, False, 'matrix builders have layout issues', fi.loc())
    return dict(obs=obs, units=sorted(units), samples=samples, funcs=sorted(w.interp.funcs_seen | wu.interp.funcs_seen))


def _mul(w, a, b):
    import ast
    return w.interp.binop(ast.Mult(), a, b)


def finalize(sm, rep, tier, results):
    rep.floor('matrix/chain identity variants (3 terms x 9 classes)', len({o['construct'] for o in rep.obs if o['rule'] in ('E1', 'E2', 'E3')}), 27)
    rep.floor('TVD implementations', len({o['construct'] for o in rep.obs if o['rule'] == 'E4'}), 9)
    from ..alg import Rat, is_zero
    x = Rat.atom(('ctl', 1))
    rep.control('identity test distinguishes x/2 from x/3', not is_zero(x / 2 - x / 3) and is_zero(x / 2 - (x + x) / 4))
