"""C06 - uniform fields stay uniform.

 U1  diffusion: every stencil row sums to zero, block by block (x/y/z blocks of csr entries)
 U2  central convection: row sum == divergenceTerm(u) at the same cell
 U3  upwind convection: row sum == divergenceTerm(u) at the same cell (every sign pattern of u)
 U4  TVD right-hand side vanishes identically when phi is constant
 U5  linearSourceTerm / constantSourceTerm are cell-local (diagonal, own-cell value)
All identities are exact and hold for symbolic sizes, spacings and coefficient fields, at the generic
cell and at the cells adjacent to every boundary.
"""
from __future__ import annotations
from ..alg import Rat, atom_key, is_zero, fmt_rat, map_atoms
from ..srcmodel import SourceModel, AnalysisError, MESH_CLASSES
from ..arrays import AbstractRaise, R, ZERO, ONE
from ..model import World, AX
from ..interp import ASparse, OpaqueFn
from .. import facts as F

PROP = 'C06'
from . import lemmas as _lemmas
LEMMAS = [_lemmas.PROTOCOL, _lemmas.SOLVE, _lemmas.BCROWS]
RULES = {'U1': 'diffusion row sums vanish per axis block', 'U2': 'central row sum == div u', 'U3': 'upwind row sum == div u',
         'U4': 'TVD RHS == 0 for constant phi', 'U5': 'source terms diagonal / cell-local'}
ASSUMPTIONS = ['exact arithmetic', 'the steady-state / phi=gamma/beta corollaries follow from U1-U5 together with C04 (solvePDE solves the assembled system)']


def jobs(tier):
    out = [(c, tier) for c in MESH_CLASSES]
    if tier == 'quick':
        from ..model import DIM
        for c in MESH_CLASSES:
            for sz in F.QUICK_SMALL_SIZES[DIM[c]]:
                out.append((c, tier, sz))
    if tier != 'quick':
        from ..model import DIM
        for c in MESH_CLASSES:
            for sz in F.SMALL_SIZES[DIM[c]]:
                out.append((c, tier, sz))
    return out


def job(args):
    cls, tier = args[0], args[1]
    sizes = args[2] if len(args) > 2 else None
    sm = SourceModel()
    w = World(sm, cls, sizes=sizes)
    obs, samples, units = [], [], set()
    szt = f" sizes={sizes}" if sizes else ''

    def ob(rule, construct, ok, detail='', loc=''):
        obs.append(dict(rule=rule, construct=construct, ok=bool(ok), detail=(str(detail) + szt)[:1500], loc=loc, nontrivial=True))
    D = w.face_variable('D')
    u = w.face_variable('u')
    phi = w.cell_variable('phi')
    cells = F.cell_classes(w, tier, mode='axes' if tier == 'quick' else 'product')
    if w.dim == 3 and tier != 'quick' and w.symbolic:
        cells = F.cell_classes(w, 'quick', mode='product')
    divu = w.call('calculus', 'divergenceTerm', u)
    units.add('calculus.divergenceTerm')
    for rule, module, disp, coef in (('U1', 'diffusion', 'diffusionTerm', D), ('U2', 'advection', 'convectionTerm', u), ('U3', 'advection', 'convectionUpwindTerm', u)):
        impl, proj, call, line = F.implementer(sm, module, disp, cls)
        fi = sm.func(module, impl)
        units.add(f"{module}.{impl}")
        construct = f"{module}.{impl}"
        try:
            M = w.call(module, disp, coef)
        except AbstractRaise as e:
            ob(rule, construct, False, f"raises {e.exc}: {e.msg}", fi.loc())
            continue
        if not isinstance(M, ASparse) or M.issues:
            ob(rule, construct, False, f"layout issues {getattr(M, 'issues', M)}", fi.loc())
            continue
        for P in cells:
            row = w.matrix_row(M, P)
            blocks = {}
            for e in row:
                blocks.setdefault(e['block'], ZERO)
                blocks[e['block']] = blocks[e['block']] + e['val']
            if rule == 'U1':
                bad = {b: s for b, s in blocks.items() if not is_zero(s)}
                ob(rule, construct, not bad, f"cell {F.cstr(P)}: row sum of csr block(s) at line(s) {sorted(bad)} = {[fmt_rat(s, 6) for s in bad.values()]}" if bad else f"cell {F.cstr(P)}: {len(blocks)} blocks", fi.loc())
                if not bad and len(samples) < 2:
                    samples.append(dict(rule='U1', cls=cls, cell=F.cstr(P), entries=[fmt_rat(e['val'], 6) for e in row][:3], block_sums='0'))
            else:
                tot = ZERO
                for s in blocks.values():
                    tot = tot + s
                d = tot - w.vector_at(divu, P)
                ok = is_zero(d)
                ob(rule, construct, ok, f"cell {F.cstr(P)}: row sum - div(u) = {fmt_rat(d, 8)}" if not ok else f"cell {F.cstr(P)}", fi.loc())
    # U4
    impl, proj, call, line = F.implementer(sm, 'advection', 'convectionTVDupwindRHSTerm', cls)
    fi = sm.func('advection', impl)
    units.add(f"advection.{impl}")
    tv = w.call('advection', 'convectionTVDupwindRHSTerm', u, phi, OpaqueFn('FL'))
    c = Rat.atom(('cconst',))

    def const_phi(key):
        if isinstance(key, tuple) and key[0] == 'phi':
            return c
        return None
    for P in cells:
        v = w.vector_at(tv, P)
        # substitute phi -> c in the polynomial part only (limiter arguments become irrelevant factors)
        v0 = map_atoms(v, const_phi)
        ob('U4', f"advection.{impl}", is_zero(v0), f"cell {F.cstr(P)}: TVD RHS for constant phi = {fmt_rat(v0, 8)}" if not is_zero(v0) else f"cell {F.cstr(P)}", fi.loc())
    # U5
    beta = w.cell_variable('beta')
    for fname in ('linearSourceTerm', 'constantSourceTerm'):
        fi = sm.func('source', fname)
        units.add(f"source.{fname}")
        res = w.call('source', fname, beta)
        for P in cells:
            if isinstance(res, ASparse):
                r = F.row_by_col(w, w.matrix_row(res, P))
                kP = tuple(str(x) for x in P)
                v = r.get(kP, (None, ZERO))[1]
                others = [k for k, (cc, x) in r.items() if k != kP and not x.is_zero()]
                ok = not others and is_zero(v - Rat.atom(('beta',) + tuple(P)))
                ob('U5', f"source.{fname}/{w.dim}D", ok, f"{cls} {F.cstr(P)}: diag={fmt_rat(v)} offdiag={others}", fi.loc())
            else:
                v = w.vector_at(res, P)
                ob('U5', f"source.{fname}/{w.dim}D", is_zero(v - Rat.atom(('beta',) + tuple(P))), f"{cls} {F.cstr(P)}: rhs={fmt_rat(v)}", fi.loc())
    return dict(obs=obs, units=sorted(units), samples=samples, funcs=sorted(w.interp.funcs_seen))


def finalize(sm, rep, tier, results):
    rep.floor('matrix term implementations', len({o['construct'] for o in rep.obs if o['rule'] in ('U1', 'U2', 'U3')}), 27)
    rep.floor('TVD implementations', len({o['construct'] for o in rep.obs if o['rule'] == 'U4'}), 9)
    from ..alg import Rat, is_zero
    a, b = Rat.atom(('ctl', 'a')), Rat.atom(('ctl', 'b'))
    rep.control('row-sum test fires on -(AN-AS)', not is_zero(a + b - (a - b)))
