"""C07 - discrete maximum principle (sufficient sign structure of the assembled rows).

For  A = alpha/dt*I - M_diffusion + M_upwind + beta*I  (alpha, dt > 0; D >= 0; beta >= 0) the extracted rows of every grid
class - generic cell and the cells adjacent to each boundary, where the upwind boundary corrections apply - are
examined in a sign domain (faces increasing, r >= 0, sin(theta_p) > 0; every sign case of every face velocity):

 M1  every off-diagonal entry of -M_diffusion and of +M_upwind (including the entry coupling to a ghost cell) is <= 0
 M2  row sums: diffusion 0, upwind = (div u)_P, transient alpha/dt, sink beta   (exact identities)
 M3  ghost elimination keeps the structure: the ghost value is an affine combination  p*phi_inner + q*g  with
     p + q = 1 and q >= 0 for Dirichlet (p=-1, q=2) and no-flux (p=1, q=0) data; on a periodic axis the two ghost
     values solved from the two periodic rows are combinations of interior values with non-negative weights
 M4  transient and sink contribute non-negative diagonal entries only (C12.T1 / C06.U5)
Theorem (weakly chained diagonally dominant Z-matrix => A^-1 >= 0, rows of A^-1*(alpha/dt) sum to <= 1) then gives the
range property for div u = 0.
"""
from __future__ import annotations
import itertools
from ..alg import Rat, Poly, atom_id, atom_key, is_zero, fmt_rat, indicator_groups, _ATOM_ID
from ..srcmodel import SourceModel, AnalysisError, MESH_CLASSES
from ..arrays import AbstractRaise, R, ZERO, ONE, snap, Box
from ..model import World, AX, DIM, atom_array, RADIAL
from ..interp import ASparse
from .. import facts as F
from .c03 import PAIR, SIDES

PROP = 'C07'
from . import lemmas as _lemmas
LEMMAS = [_lemmas.PROTOCOL, _lemmas.SOLVE]
RULES = {'M1': 'off-diagonals non-positive', 'M2': 'row sums', 'M3': 'ghost elimination keeps the sign structure', 'M4': 'transient / sink diagonal and non-negative'}
ASSUMPTIONS = ['D >= 0 on every face, alpha > 0, dt > 0, beta >= 0, faces increasing, r >= 0, sin(theta_p) > 0',
               'discretely divergence-free velocity for the range statement (row sum alpha/dt + beta + div u)',
               'M-matrix theorem bridges the sign structure to the values; boundary kinds Dirichlet / no-flux / periodic']


def jobs(tier):
    out = [(c, tier) for c in MESH_CLASSES]
    # concrete small grids (down to one cell per axis) with symbolic data: index collisions on one-cell axes (a repeated fancy
    # index keeps the last update only) change the row sums there.  Quick tier: the 2-D / 3-D classes, where such axes are usual
    from ..model import DIM as _DIM
    for c in MESH_CLASSES:
        if tier == 'quick' and _DIM[c] == 1:
            continue
        for sz in (F.QUICK_SMALL_SIZES[_DIM[c]] if tier == 'quick' else F.SMALL_SIZES[_DIM[c]][:5]):
            out.append((c, tier, sz))
    return out


def sign_cases(w, expr: Rat):
    """yield (case description, weak sign) for every sign assignment of the indicator arguments"""
    groups = indicator_groups(expr.num)
    for (f_, e) in expr.den:
        groups.update(indicator_groups(f_))
    gk = list(groups)
    if not gk:
        yield 'no sign tests', w.weak_sign_of(expr)
        return
    for choice in itertools.product(('>0', '<0', '==0'), repeat=len(gk)):
        mp = {}
        pos, neg = set(), set()
        for g, rel in zip(gk, choice):
            for rr in ('>0', '<0', '==0'):
                aid = _ATOM_ID.get(('ind', rr, g))
                if aid is not None:
                    mp[aid] = Poly.const(1 if rr == rel else 0)
            if isinstance(g, Rat) and g.is_poly() and len(g.atoms()) == 1 and len(g.num.t) == 1:
                a = next(iter(g.atoms()))
                if rel == '==0':
                    mp[a] = Poly({})
                elif rel == '>0':
                    pos.add(a)
                else:
                    neg.add(a)
        e2 = expr.subs(mp)
        # negative atoms: substitute a -> -a' with a' > 0
        if neg:
            sub = {}
            for a in neg:
                k = atom_key(a)
                na = Rat.atom(('negof', k))
                pos |= na.atoms()
                sub[a] = -na
            e2 = e2.subs(sub)
        saved = set(w.pos_atoms)
        w.pos_atoms |= pos
        w.__dict__.pop('_sign_cache', None)
        try:
            s = w.weak_sign_of(e2)
        finally:
            w.pos_atoms = saved
            w.__dict__.pop('_sign_cache', None)
        yield ', '.join(f"{fmt_rat(g)}{r}" for g, r in zip(gk, choice)), s


def job(args):
    cls, tier = args[:2]
    sizes = args[2] if len(args) > 2 else None
    sm = SourceModel()
    w = World(sm, cls, sizes=sizes)
    d = w.dim
    obs, samples, units = [], [], set()

    def ob(rule, construct, ok, detail='', loc=''):
        obs.append(dict(rule=rule, construct=construct, ok=bool(ok), detail=(f"[{cls}] " + str(detail))[:1200], loc=loc, nontrivial=True))
    D, u = w.face_variable('D'), w.face_variable('u')
    # D atoms are >= 0
    class _NN(set):
        pass
    cells = F.cell_classes(w, 'quick', mode='axes')
    for (tname, module, disp, coef, sgn) in (('diffusion', 'diffusion', 'diffusionTerm', D, -1), ('upwind', 'advection', 'convectionUpwindTerm', u, +1)):
        impl = F.implementer(sm, module, disp, cls)[0]
        fi = sm.func(module, impl)
        units.add(f"{module}.{impl}")
        M = w.call(module, disp, coef)
        if not isinstance(M, ASparse) or M.issues:
            ob('M1', f"{module}.{impl}", False, "layout issues", fi.loc())
            continue
        for P in cells:
            row = F.row_by_col(w, w.matrix_row(M, P))
            kP = tuple(str(x) for x in P)
            # declare D atoms non-negative
            for k, (c, v) in row.items():
                for a in v.atoms():
                    kk = atom_key(a)
                    if isinstance(kk, tuple) and kk[0] == 'D':
                        w.nonneg_atoms.add(a)
            w.__dict__.pop('_sign_cache', None)
            for k, (c, v) in row.items():
                if k == kP:
                    continue
                entry = v * sgn
                bad = []
                for desc, s in sign_cases(w, entry):
                    if s not in ('-', '<=0', '0'):
                        bad.append((desc, s))
                ob('M1', f"{module}.{impl}", not bad,
                   f"row {F.cstr(P)} column {k}: entry of {'-' if sgn < 0 else '+'}M = {fmt_rat(entry, 6)} has sign {bad[0][1]} in case [{bad[0][0]}]" if bad else f"row {F.cstr(P)} column {k} <= 0 in all sign cases", fi.loc())
            # M2
            if tname == 'diffusion':
                blocks = {}
                for e in w.matrix_row(M, P):
                    blocks[e['block']] = blocks.get(e['block'], ZERO) + e['val']
                ob('M2', f"{module}.{impl}", all(is_zero(s) for s in blocks.values()), f"row {F.cstr(P)}: block row sums {[fmt_rat(s, 4) for s in blocks.values()]}", fi.loc())
            else:
                tot = ZERO
                for k, (c, v) in row.items():
                    tot = tot + v
                dv = w.vector_at(w.call('calculus', 'divergenceTerm', u), P)
                ob('M2', f"{module}.{impl}", is_zero(tot - dv), f"row {F.cstr(P)}: row sum - div u = {fmt_rat(tot - dv, 5)}", fi.loc())
    # M4
    units.update({'source.transientTerm', 'source.linearSourceTerm'})
    ft = sm.func('source', 'transientTerm')
    al, dt = Rat.atom(('alpha',)), Rat.atom(('dt',))
    w.pos_atoms |= al.atoms() | dt.atoms()
    Mt, Rt = w.call('source', 'transientTerm', w.cell_variable('phi', w.boundary_conditions()), dt, al)
    P = tuple(w.g)
    row = F.row_by_col(w, w.matrix_row(Mt, P))
    kP = tuple(str(x) for x in P)
    okk = set(row) <= {kP} and w.sign_of(row.get(kP, (None, ZERO))[1]) == '+'
    ob('M4', f"source.transientTerm/{d}D", okk, f"transient row {F.cstr(P)}: {({k: fmt_rat(v[1]) for k, v in row.items()})}", ft.loc())
    fl = sm.func('source', 'linearSourceTerm')
    Ml = w.call('source', 'linearSourceTerm', w.cell_variable('beta'))
    row = F.row_by_col(w, w.matrix_row(Ml, P))
    ob('M4', f"source.linearSourceTerm/{d}D", set(row) <= {kP}, f"sink row {F.cstr(P)} is diagonal: {list(row)}", fl.loc())
    # M3 ghost elimination
    gi = F.implementer(sm, 'boundary', 'cellValuesWithBoundaries', cls)[0]
    ri = F.implementer(sm, 'boundary', 'boundaryConditionsTerm', cls)[0]
    gfi, rfi = sm.func('boundary', gi), sm.func('boundary', ri)
    units.update({f"boundary.{gi}", f"boundary.{ri}"})
    phi_int = Box(atom_array(('phi',), w.N, offset=tuple(ONE for _ in w.N)))
    for kind in ('dirichlet', 'noflux'):
        bc = w.boundary_conditions(kinds={f: kind for f in ('left', 'right', 'bottom', 'top', 'back', 'front')})
        if kind == 'noflux':
            for f_ in ('left', 'right', 'bottom', 'top', 'back', 'front'):
                box = bc.attrs[f_].attrs['_c']
                if not (box.cur.shape and box.cur.shape[0].is_zero()):
                    from ..arrays import const_arr
                    box.cur = const_arr(box.cur.shape, ZERO)
        ghost = snap(w.call('boundary', 'cellValuesWithBoundaries', phi_int, bc))
        for (face, a, side) in SIDES:
            if a >= d:
                continue
            n = w.N[a]
            G = tuple((ZERO if side == 'low' else n + 1) if k == a else w.g[k] for k in range(d))
            I = tuple((ONE if side == 'low' else n) if k == a else w.g[k] for k in range(d))
            gv = ghost.at(G)
            aI = atom_id(('phi',) + I)
            try:
                p, rest = gv.coeff_of(aI)
            except ValueError as e:
                ob('M3', f"boundary.{gi}/{kind}/face={face}", False, f"ghost value not affine in the inner value: {e}", gfi.loc())
                continue
            catoms = [a_ for a_ in rest.atoms() if isinstance(atom_key(a_), tuple) and atom_key(a_)[0] == 'bc' and atom_key(a_)[2] == 'c']
            q = ZERO
            rem = rest
            if catoms:
                q, rem = rest.coeff_of(catoms[0])
            okk = is_zero(p + q - 1) and is_zero(rem) and w.weak_sign_of(q) in ('+', '>=0', '0')
            ob('M3', f"boundary.{gi}/{kind}/face={face}", okk, f"ghost = {fmt_rat(p)}*phi_inner + {fmt_rat(q)}*g + {fmt_rat(rem)}", gfi.loc())
            if okk and len(samples) < 2:
                samples.append(dict(rule='M3', cls=cls, kind=kind, face=face, p=fmt_rat(p), q=fmt_rat(q)))
    # periodic axes: solve the two periodic rows for the two ghost values
    for a in range(d):
        if a == 0 and cls in RADIAL:
            continue
        bc = w.boundary_conditions(periodic=set(PAIR[a]))
        try:
            Mb, Rb = w.call('boundary', 'boundaryConditionsTerm', bc)
        except AbstractRaise as e:
            ob('M3', f"boundary.{ri}/periodic/axis={AX[a]}", False, f"raises {e.exc}", rfi.loc())
            continue
        n = w.N[a]
        cell = lambda v: tuple(v if k == a else w.g[k] for k in range(d))
        G0, GN, C1, CN = cell(ZERO), cell(n + 1), cell(ONE), cell(n)
        keys = {tuple(str(x) for x in c): nm for c, nm in ((G0, 'g0'), (GN, 'gN'), (C1, 'c1'), (CN, 'cN'))}
        eqs = []
        okrows = True
        for G in (G0, GN):
            row = F.row_by_col(w, w.matrix_row(Mb, G))
            co = {'g0': ZERO, 'gN': ZERO, 'c1': ZERO, 'cN': ZERO}
            for k, (c, v) in row.items():
                if k not in keys:
                    okrows = False
                else:
                    co[keys[k]] = v
            eqs.append(co)
        if not okrows:
            ob('M3', f"boundary.{ri}/periodic/axis={AX[a]}", False, "periodic rows couple cells other than the two ghosts and the two end cells", rfi.loc())
            continue
        # [a11 a12; a21 a22] [g0 gN]^T = -[b11 b12; b21 b22][c1 cN]^T
        a11, a12, a21, a22 = eqs[0]['g0'], eqs[0]['gN'], eqs[1]['g0'], eqs[1]['gN']
        det = a11 * a22 - a12 * a21
        if is_zero(det):
            ob('M3', f"boundary.{ri}/periodic/axis={AX[a]}", False, "periodic rows do not determine the ghost values", rfi.loc())
            continue
        weights = {}
        for col in ('c1', 'cN'):
            b1, b2 = -eqs[0][col], -eqs[1][col]
            weights[('g0', col)] = (b1 * a22 - a12 * b2) / det
            weights[('gN', col)] = (a11 * b2 - a21 * b1) / det
        bad = [(k, fmt_rat(v)) for k, v in weights.items() if w.weak_sign_of(v) not in ('+', '>=0', '0')]
        cons = f"boundary.{ri}/periodic/axis={AX[a]}"
        if bad:
            def f(i):
                return Rat.atom(('f', AX[a], R(i)))
            eq = {atom_id(('f', AX[a], R(n))): (f(n - 1) + f(1) - f(0))}
            if all(w.weak_sign_of(v.subs(eq)) in ('+', '>=0', '0') for v in weights.values()):
                cons += '[nonnegative-only-for-equal-end-cells]'
        ob('M3', cons, not bad, f"ghost weights solved from the periodic rows: {({str(k): fmt_rat(v) for k, v in weights.items()})}" + (f" ; not provably >= 0: {bad[:2]}" if bad else ''), rfi.loc())
    return dict(obs=obs, units=sorted(units), samples=samples)


def finalize(sm, rep, tier, results):
    rep.floor('off-diagonal sign obligations', sum(1 for o in rep.obs if o['rule'] == 'M1'), 150)
    rep.floor('ghost-elimination obligations', sum(1 for o in rep.obs if o['rule'] == 'M3'), 60)
    # positive control: the sign domain must call a cell size positive, its negative negative and a difference of two
    # unrelated sizes undecided
    wc = World(sm, 'Grid1D')
    f = lambda i: Rat.atom(('f', 'x', wc.t[0] + i))
    rep.control('sign domain: size > 0, -size < 0, size - other size undecided',
                wc.weak_sign_of(f(1) - f(0)) in ('+', '+0') and wc.weak_sign_of(f(0) - f(1)) in ('-', '-0') and wc.weak_sign_of((f(1) - f(0)) - (f(3) - f(2))) not in ('+', '-', '+0', '-0', '0'),
                f"{wc.weak_sign_of(f(1) - f(0))} {wc.weak_sign_of(f(0) - f(1))} {wc.weak_sign_of((f(1) - f(0)) - (f(3) - f(2)))}")
    rep.samples.append(dict(rule='M1', example='convectionUpwindTerm1D: AE = min(u_e,0)/dx: case u_e>0 -> 0 ; u_e<0 -> u_e/dx < 0 ; u_e==0 -> 0'))
