"""C08 - redundant axes, axis relabelling, mirroring and periodic shifts change nothing (operator level).

Decided on the extracted stencils (symbolic sizes, spacings, coefficient fields; atoms renamed / re-indexed):

 A1  Cartesian axis permutation: for Grid2D / Grid3D and every term family (diffusion, central, upwind, TVD RHS,
     divergence, gradient, means, ghost values and boundary rows), the rows are equivariant under every transposition of
     axes:  T(row(P)) == row(T P)
 A2  embeddings Grid3D > Grid2D > Grid1D, CylindricalGrid3D > CylindricalGrid2D / PolarGrid2D > CylindricalGrid1D: for the
     shared axes the coefficient of each (cell, neighbour) pair on the larger grid, with the extra index dropped, is the
     coefficient on the smaller grid; the extra axis' block annihilates fields that are constant along it when the
     coefficient fields do not vary along it
 A3  mirror: reflecting a Cartesian axis (cells i -> N+1-i, faces i -> N-i, f -> -f, normal velocity reversed) maps the
     row of cell P onto the row of the mirrored cell
 A4  periodic seam on a uniform axis: with wrapped ghost values, the rows of the first and last cell are the
     translates of the generic row (so a cyclic shift of the data shifts the operator)
"""
from __future__ import annotations
import itertools
from ..alg import Rat, Poly, atom_id, atom_key, is_zero, fmt_rat, reindex
from ..srcmodel import SourceModel, AnalysisError, MESH_CLASSES
from ..arrays import AbstractRaise, R, ZERO, ONE, snap, Box
from ..model import World, AX, DIM, atom_array, RADIAL
from ..interp import ASparse, OpaqueFn
from .. import facts as F
from ..symm import deep_map, axis_permutation, drop_axis, rename_axes, mirror
from .c05 import apply_row

PROP = 'C08'
from . import lemmas as _lemmas
LEMMAS = [_lemmas.PROTOCOL, _lemmas.SOLVE, _lemmas.INTBC]
RULES = {'A1': 'equivariance under Cartesian axis permutations', 'A2': 'embedding into the higher-dimensional grid', 'A3': 'mirror symmetry',
         'A4': 'translation across a periodic seam (uniform axis)'}
ASSUMPTIONS = ['exact arithmetic; solution-level statements follow with C03/C04 (same boundary treatment on the paired grids)',
               'A4: uniform spacing along the periodic axis and coefficient fields identified across the seam']

TERMS = [('diffusion', 'diffusion', 'diffusionTerm', 'D'), ('convection', 'advection', 'convectionTerm', 'u'), ('upwind', 'advection', 'convectionUpwindTerm', 'u'),
         ('divergence', 'calculus', 'divergenceTerm', 'Fv'), ('tvd', 'advection', 'convectionTVDupwindRHSTerm', 'u')]
EMBED = [('Grid3D', 'Grid2D', 2, {}), ('Grid2D', 'Grid1D', 1, {}), ('CylindricalGrid3D', 'CylindricalGrid2D', 1, {'z': 'y'}),
         ('CylindricalGrid3D', 'PolarGrid2D', 2, {}), ('CylindricalGrid2D', 'CylindricalGrid1D', 1, {}), ('PolarGrid2D', 'CylindricalGrid1D', 1, {})]


def jobs(tier):
    out = [('perm', 'Grid2D', tier), ('perm', 'Grid3D', tier)]
    # axis relabelling on concrete grids with equally many cells along every axis (one and two): size-dependent branches and
    # index collisions on short axes must treat all axes alike
    out += [('perm', 'Grid2D', tier, (1, 1)), ('perm', 'Grid3D', tier, (1, 1, 1))]
    if tier != 'quick':
        out += [('perm', 'Grid2D', tier, (2, 2)), ('perm', 'Grid3D', tier, (2, 2, 2))]
    out += [('embed', e, tier) for e in EMBED]
    out += [('mirror', c, tier) for c in ('Grid1D', 'Grid2D', 'Grid3D')]
    out += [('seam', c, tier) for c in ('Grid1D', 'Grid2D', 'Grid3D', 'PolarGrid2D', 'CylindricalGrid3D')]
    return out


def build(w, tname, module, disp, cname):
    """the operator as assembled the *second* time on this mesh with the same arguments: a solution on the larger grid and on
    the reduced grid are compared after any number of assemblies (time loops rebuild their terms), so state a builder leaves
    on the mesh must not change what it returns"""
    coef = w.face_variable(cname)
    if tname == 'tvd':
        phi = w.cell_variable('phi')
        w.call(module, disp, coef, phi, OpaqueFn('FL'))
        return w.call(module, disp, coef, phi, OpaqueFn('FL'))
    w.call(module, disp, coef)
    return w.call(module, disp, coef)


def value_at(w, res, P):
    """a single Rat describing row P: matrix rows applied to the field phi, vectors as they are"""
    if isinstance(res, ASparse):
        if res.issues:
            raise AnalysisError(f"layout issues {res.issues[:1]}")
        return apply_row(w.matrix_row(res, P), 'phi')
    return w.vector_at(res, P)


def job(args):
    kind, what, tier = args[:3]
    sizes = args[3] if len(args) > 3 else None
    sm = SourceModel()
    obs, samples, units = [], [], set()

    def ob(rule, construct, ok, detail='', loc=''):
        obs.append(dict(rule=rule, construct=construct, ok=bool(ok), detail=str(detail)[:1200], loc=loc, nontrivial=True))
    if kind == 'perm':
        cls = what
        w = World(sm, cls, sizes=sizes)
        d = w.dim
        swaps = [(0, 1)] if d == 2 else [(0, 1), (0, 2), (1, 2)]
        for (tname, module, disp, cname) in TERMS:
            impl = F.implementer(sm, module, disp, cls)[0]
            fi = sm.func(module, impl)
            units.add(f"{module}.{impl}")
            res = build(w, tname, module, disp, cname)
            for (a, b) in swaps:
                perm = {AX[a]: AX[b], AX[b]: AX[a]}
                for ax in AX:
                    perm.setdefault(ax, ax)
                fn = axis_permutation(perm)
                for P in _cells(w, tier):
                    Pt = list(P)
                    Pt[a], Pt[b] = deep_map(P[b], fn), deep_map(P[a], fn)
                    for k in range(d):
                        if k not in (a, b):
                            Pt[k] = deep_map(P[k], fn)
                    Pt = tuple(Pt)
                    lhs = deep_map(value_at(w, res, P), fn)
                    rhs = value_at(w, res, Pt)
                    ok = is_zero(lhs - rhs)
                    ob('A1', f"{module}.{impl}/swap={AX[a]}{AX[b]}", ok,
                       f"[{cls}{' sizes=' + str(sizes) if sizes else ''}] row {F.cstr(P)} transposed differs from row {F.cstr(Pt)} by {fmt_rat(lhs - rhs, 6)}" if not ok else f"[{cls}] row {F.cstr(P)} <-> {F.cstr(Pt)}", fi.loc())
        if sizes:
            return dict(obs=obs, units=sorted(units), samples=samples, funcs=sorted(w.interp.funcs_seen))
        # gradient and means: component a at face index <-> component b
        phi = w.cell_variable('phi')
        u = w.face_variable('u')
        for module, fn_ in (('calculus', 'gradientTerm'), ('averaging', 'linearMean'), ('averaging', 'arithmeticMean'), ('averaging', 'harmonicMean'), ('averaging', 'upwindMean')):
            fi = sm.func(module, fn_)
            units.add(f"{module}.{fn_}")
            fv = w.call(module, fn_, phi, u) if fn_ == 'upwindMean' else w.call(module, fn_, phi)
            for (a, b) in swaps:
                perm = {AX[a]: AX[b], AX[b]: AX[a]}
                for ax in AX:
                    perm.setdefault(ax, ax)
                tf = axis_permutation(perm)
                ca, cb = snap(fv.attrs['_' + AX[a] + 'value']), snap(fv.attrs['_' + AX[b] + 'value'])
                idx_a = tuple(w.t[j] - (0 if j == a else 1) for j in range(d))
                idx_b = list(idx_a)
                idx_b[a], idx_b[b] = deep_map(idx_a[b], tf), deep_map(idx_a[a], tf)
                for k in range(d):
                    if k not in (a, b):
                        idx_b[k] = deep_map(idx_a[k], tf)
                lhs = deep_map(ca.at(idx_a), tf)
                rhs = cb.at(tuple(idx_b))
                ok = is_zero(lhs - rhs)
                ob('A1', f"{module}.{fn_}/{d}D/swap={AX[a]}{AX[b]}", ok, f"[{cls}] component {AX[a]} transposed vs component {AX[b]}: difference {fmt_rat(lhs - rhs, 6)}" if not ok else f"[{cls}] components agree", fi.loc())
        # ghost values and boundary rows: face names permute with the axes
        FACE_OF = {0: ('left', 'right'), 1: ('bottom', 'top'), 2: ('back', 'front')}
        gi = F.implementer(sm, 'boundary', 'cellValuesWithBoundaries', cls)[0]
        ri = F.implementer(sm, 'boundary', 'boundaryConditionsTerm', cls)[0]
        gfi, rfi = sm.func('boundary', gi), sm.func('boundary', ri)
        units.update({f"boundary.{gi}", f"boundary.{ri}"})
        phi_int = Box(atom_array(('phi',), w.N, offset=tuple(ONE for _ in w.N)))
        _bcache = {}

        def bsys(per_axes, which='both'):
            """(ghost array, boundary matrix, boundary rhs) with the faces of the given axes flagged periodic (both faces, or
            only the low / high one: a single flag already declares the axis periodic)"""
            key = (tuple(sorted(per_axes)), which)
            if key not in _bcache:
                pick = {'both': (0, 1), 'low': (0,), 'high': (1,)}[which]
                bc = w.boundary_conditions(periodic={FACE_OF[k][j] for k in key[0] for j in pick})
                gh = snap(w.call('boundary', 'cellValuesWithBoundaries', phi_int, bc))
                Mb, Rb = w.call('boundary', 'boundaryConditionsTerm', bc)
                _bcache[key] = (gh, Mb, Rb)
            return _bcache[key]
        for (a, b) in swaps:
            perm = {AX[a]: AX[b], AX[b]: AX[a]}
            for ax in AX:
                perm.setdefault(ax, ax)
            base = axis_permutation(perm)
            facemap = {}
            for k in range(3):
                kk = b if k == a else a if k == b else k
                facemap[FACE_OF[k][0]] = FACE_OF[kk][0]
                facemap[FACE_OF[k][1]] = FACE_OF[kk][1]

            def tf(k, rec, base=base, facemap=facemap, a=a, b=b):
                if k[0] == 'bc':
                    face = k[1]
                    ax_of = {'left': 0, 'right': 0, 'bottom': 1, 'top': 1, 'back': 2, 'front': 2}[face]
                    trans = [j for j in range(d) if j != ax_of]
                    idx = dict(zip(trans, k[3:]))
                    new_face = facemap[face]
                    nax = {'left': 0, 'right': 0, 'bottom': 1, 'top': 1, 'back': 2, 'front': 2}[new_face]
                    moved = {}
                    for j, v in idx.items():
                        jj = b if j == a else a if j == b else j
                        moved[jj] = rec(v)
                    order = [j for j in range(d) if j != nax]
                    return Rat.atom(('bc', new_face, k[2]) + tuple(moved[j] for j in order))
                return base(k, rec)
            sw = {a: b, b: a}
            # the same relabelling must hold when an axis is declared periodic: periodic along p on one side of the
            # identity, periodic along swap(p) on the other
            for per, which in (((), 'both'), ((a,), 'both'), ((b,), 'both'), ((a,), 'low'), ((b,), 'high')):
                per_t = tuple(sw.get(k, k) for k in per)
                ghost1, Mb1, Rb1 = bsys(per, which)
                ghost2, Mb2, Rb2 = bsys(per_t, which)
                ptxt = (f"/periodic={''.join(AX[k] for k in per)}" + ('' if which == 'both' else f"[{which} flag only]")) if per else ''
                for side_val, nm in ((ZERO, 'low'), (None, 'high')):
                    G = tuple((ZERO if nm == 'low' else w.N[a] + 1) if k == a else w.t[k] for k in range(d))
                    Gt = list(G)
                    Gt[a], Gt[b] = deep_map(G[b], tf), deep_map(G[a], tf)
                    for k in range(d):
                        if k not in (a, b):
                            Gt[k] = deep_map(G[k], tf)
                    Gt = tuple(Gt)
                    lhs = deep_map(ghost1.at(G), tf)
                    rhs = ghost2.at(Gt)
                    ob('A1', f"boundary.{gi}/swap={AX[a]}{AX[b]}{ptxt}", is_zero(lhs - rhs), f"[{cls}] ghost {F.cstr(G)} transposed vs ghost {F.cstr(Gt)}: difference {fmt_rat(lhs - rhs, 5)}", gfi.loc())
                    r1 = deep_map(apply_row(w.matrix_row(Mb1, G), 'phi') - w.vector_at(Rb1, G), tf)
                    r2 = apply_row(w.matrix_row(Mb2, Gt), 'phi') - w.vector_at(Rb2, Gt)
                    ob('A1', f"boundary.{ri}/swap={AX[a]}{AX[b]}{ptxt}", is_zero(r1 - r2) or is_zero(r1 + r2), f"[{cls}] boundary row {F.cstr(G)} transposed vs row {F.cstr(Gt)}: difference {fmt_rat(r1 - r2, 5)}", rfi.loc())
        return dict(obs=obs, units=sorted(units), samples=samples)

    if kind == 'embed':
        big, small, dropax, ren = what
        wb, ws = World(sm, big), World(sm, small)
        db, ds = wb.dim, ws.dim
        keep = [k for k in range(db) if k != dropax]
        for (tname, module, disp, cname) in TERMS:
            ib, is_ = F.implementer(sm, module, disp, big)[0], F.implementer(sm, module, disp, small)[0]
            fb = sm.func(module, ib)
            units.update({f"{module}.{ib}", f"{module}.{is_}"})
            rb, rs = build(wb, tname, module, disp, cname), build(ws, tname, module, disp, cname)
            # generic and boundary-adjacent cells of the small grid, lifted to the big one with a generic extra coordinate
            for Ps in _cells(ws, tier):
                Pb = [None] * db
                for j, k in enumerate(keep):
                    Pb[k] = _rename_index(Ps[j], AX[j], AX[k])
                Pb[dropax] = wb.t[dropax]
                Pb = tuple(Pb)
                vb = value_at(wb, rb, Pb)
                vs = value_at(ws, rs, Ps)
                # restrict the big row: fields and coefficient fields do not vary along the dropped axis
                vb2 = deep_map(vb, drop_axis(dropax, db))
                # face atoms of the dropped axis' own component vanish from a constant-along-axis problem only if its block annihilates constants:
                # identify u_dropped at the two faces (no variation along the axis)
                vb2 = _identify_along(vb2, dropax, db, cname)
                # rename the axes of the small grid to those of the big one
                perm = {AX[j]: AX[k] for j, k in enumerate(keep)}
                vs2 = deep_map(vs, rename_axes(perm))
                ok = is_zero(vb2 - vs2)
                ob('A2', f"{module}.{ib}~{is_}", ok, f"[{big}>{small}] row {F.cstr(Pb)} restricted to data constant along {AX[dropax]} differs from row {F.cstr(Ps)} of the reduced grid by {fmt_rat(vb2 - vs2, 6)}" if not ok else f"[{big}>{small}] row {F.cstr(Ps)}", fb.loc())
        return dict(obs=obs, units=sorted(units), samples=samples)

    if kind == 'mirror':
        cls = what
        w = World(sm, cls)
        d = w.dim
        for (tname, module, disp, cname) in TERMS:
            impl = F.implementer(sm, module, disp, cls)[0]
            fi = sm.func(module, impl)
            units.add(f"{module}.{impl}")
            res = build(w, tname, module, disp, cname)
            from .. import arrays as A_
            for a in range(d):
                n = w.N[a]
                fn = mirror(a, n)
                for P in [tuple(w.t), tuple(ONE if k == a else w.t[k] for k in range(d))]:
                    Pm = tuple((n + 1 - P[k]) if k == a else P[k] for k in range(d))
                    v0 = value_at(w, res, P)
                    if tname == 'tvd':
                        # _fsign is odd except at 0; the oddness may be used only if every limiter value whose ratio is
                        # guarded by fsign(y) is multiplied by a factor that vanishes with y
                        safe, why = _fsign_guard_structure(v0)
                        ob('A3', f"{module}.{impl}/fsign-guard-structure", safe, f"[{cls}] row {F.cstr(P)}: {why}", fi.loc())
                        if not safe:
                            continue
                        A_.ODD_FUNCS.add('fsign')
                    try:
                        lhs = deep_map(v0, fn)
                        rhs = deep_map(value_at(w, res, Pm), lambda k, rec: None)
                    finally:
                        A_.ODD_FUNCS.discard('fsign')
                    # divergence / convective terms are odd-even consistent: the value itself is a scalar field -> equal
                    ok = is_zero(lhs - rhs)
                    ob('A3', f"{module}.{impl}/mirror={AX[a]}", ok, f"[{cls}] row {F.cstr(P)} mirrored differs from row {F.cstr(Pm)} by {fmt_rat(lhs - rhs, 6)}" if not ok else f"[{cls}] row {F.cstr(P)} <-> {F.cstr(Pm)}", fi.loc())
        # boundary values mirror too: the faces of the mirrored axis swap, the coefficient of the derivative changes sign
        # (d/dx -> -d/dx'), coefficient arrays on the other faces are reversed along the mirrored axis
        FACE_OF = {0: ('left', 'right'), 1: ('bottom', 'top'), 2: ('back', 'front')}
        AX_OF = {'left': 0, 'right': 0, 'bottom': 1, 'top': 1, 'back': 2, 'front': 2}
        gi = F.implementer(sm, 'boundary', 'cellValuesWithBoundaries', cls)[0]
        ri = F.implementer(sm, 'boundary', 'boundaryConditionsTerm', cls)[0]
        gfi, rfi = sm.func('boundary', gi), sm.func('boundary', ri)
        units.update({f"boundary.{gi}", f"boundary.{ri}"})
        bc = w.boundary_conditions()
        phi_int = Box(atom_array(('phi',), w.N, offset=tuple(ONE for _ in w.N)))
        ghost = snap(w.call('boundary', 'cellValuesWithBoundaries', phi_int, bc))
        Mb, Rb = w.call('boundary', 'boundaryConditionsTerm', bc)
        for a in range(d):
            n = w.N[a]
            base = mirror(a, n)

            def fnb(k, rec, a=a, n=n, base=base):
                if k[0] == 'bc':
                    face, coef = k[1], k[2]
                    axf = AX_OF[face]
                    trans = [j for j in range(d) if j != axf]
                    idx = [rec(z) for z in k[3:]]
                    if axf == a:
                        other = FACE_OF[a][1] if face == FACE_OF[a][0] else FACE_OF[a][0]
                        return (-1 if coef == 'a' else 1) * Rat.atom(('bc', other, coef) + tuple(idx))
                    if a in trans:
                        j = trans.index(a)
                        idx[j] = n - 1 - idx[j]
                    return Rat.atom(('bc', face, coef) + tuple(idx))
                return base(k, rec)
            for gpos, nm in ((ZERO, 'low'), (n + 1, 'high')):
                G = tuple(gpos if k == a else w.t[k] for k in range(d))
                Gm = tuple((n + 1 - gpos) if k == a else w.t[k] for k in range(d))
                lhs = deep_map(ghost.at(G), fnb)
                rhs = ghost.at(Gm)
                ob('A3', f"boundary.{gi}/mirror={AX[a]}", is_zero(lhs - rhs), f"[{cls}] ghost {F.cstr(G)} mirrored vs ghost {F.cstr(Gm)}: difference {fmt_rat(lhs - rhs, 5)}", gfi.loc())
                r1 = deep_map(apply_row(w.matrix_row(Mb, G), 'phi') - w.vector_at(Rb, G), fnb)
                r2 = apply_row(w.matrix_row(Mb, Gm), 'phi') - w.vector_at(Rb, Gm)
                ob('A3', f"boundary.{ri}/mirror={AX[a]}", is_zero(r1 - r2) or is_zero(r1 + r2), f"[{cls}] boundary row {F.cstr(G)} mirrored vs row {F.cstr(Gm)}: difference {fmt_rat(r1 - r2, 5)}", rfi.loc())
            # a ghost on another axis, seen from the mirrored position
            for b in range(d):
                if b == a:
                    continue
                G = tuple(ZERO if k == b else w.t[k] for k in range(d))
                Gm = tuple((n + 1 - G[k]) if k == a else G[k] for k in range(d))
                lhs = deep_map(ghost.at(G), fnb)
                rhs = deep_map(ghost.at(Gm), lambda k, rec: None)
                ob('A3', f"boundary.{gi}/mirror={AX[a]}", is_zero(lhs - rhs), f"[{cls}] ghost {F.cstr(G)} (axis {AX[b]}) mirrored vs ghost {F.cstr(Gm)}: difference {fmt_rat(lhs - rhs, 5)}", gfi.loc())
        return dict(obs=obs, units=sorted(units), samples=samples)

    if kind == 'seam':
        cls = what
        w = World(sm, cls, uniform=True)
        d = w.dim
        for (tname, module, disp, cname) in TERMS:
            impl = F.implementer(sm, module, disp, cls)[0]
            fi = sm.func(module, impl)
            units.add(f"{module}.{impl}")
            res = build(w, tname, module, disp, cname)
            for a in range(d):
                if a == 0 and cls in RADIAL:
                    continue
                n = w.N[a]
                Pg = tuple(w.t)
                gen = value_at(w, res, Pg)
                for pos, nm in ((ONE, 'first'), (n, 'last')):
                    P = tuple(pos if k == a else w.t[k] for k in range(d))
                    got = value_at(w, res, P)
                    want = reindex(gen, {atom_id(('t', AX[a])): pos})
                    wrap = _wrap(a, n, d)
                    got2, want2 = deep_map(got, wrap), deep_map(want, wrap)
                    ok = is_zero(got2 - want2)
                    cons = f"{module}.{impl}/seam={AX[a]}"
                    if not ok and tname in ('upwind', 'tvd'):
                        cons += '[boundary-treatment-at-periodic-seam]'
                    ob('A4', cons, ok, f"[{cls}] {nm} cell {F.cstr(P)}: row with wrapped neighbours differs from the translated generic row by {fmt_rat(got2 - want2, 6)}" if not ok else f"[{cls}] {nm} cell", fi.loc())
        return dict(obs=obs, units=sorted(units), samples=samples)
    raise AnalysisError(kind)


def _cells(w, tier):
    d = w.dim
    if not w.symbolic:
        return F.cell_classes(w, tier)
    out = [tuple(w.t)]
    for a in range(d):
        out.append(tuple(ONE if k == a else w.t[k] for k in range(d)))
        out.append(tuple(w.N[a] if k == a else w.t[k] for k in range(d)))
    return out


def _rename_index(r, a_from, a_to):
    if a_from == a_to:
        return r

    def fn(k, rec):
        if k[0] in ('t', 'N') and k[1] == a_from:
            return Rat.atom((k[0], a_to))
        return None
    return deep_map(R(r), fn)


def _identify_along(v, dropax, nd, cname):
    """after drop_axis: the face component along the dropped axis still carries distinct atoms for the two faces of
    the cell; data that do not vary along the axis have equal values there"""
    ax = AX[dropax]

    def fn(k, rec):
        if k[0] in ('D', 'u', 'uu', 'Fv') and k[1] == ax:
            idx = list(k[2:])
            # index along the dropped axis was removed by drop_axis for arrays of full rank; component `ax` arrays were
            # indexed by the face index along ax at position dropax: also removed.  Nothing left to do.
            return None
        return None
    return v


def _wrap(a, n, d):
    """identify cells / faces across the periodic seam of axis a: cell 0 ~ cell N, cell N+1 ~ cell 1, face 0 ~ face N,
    cell -1 ~ N-1, N+2 ~ 2"""
    ax = AX[a]

    def canon_cell(i):
        for off, tgt in ((ZERO, n), (R(-1), n - 1), (n + 1, ONE), (n + 2, R(2))):
            if is_zero(i - off):
                return tgt
        return i

    def fn(k, rec):
        h = k[0]
        if h in ('phi', 'beta', 'gamma'):
            idx = [rec(z) for z in k[1:]]
            idx[a] = canon_cell(idx[a])
            return Rat.atom((h,) + tuple(idx))
        if h in ('D', 'u', 'uu', 'Fv'):
            idx = [rec(z) for z in k[2:]]
            if k[1] == ax:
                if is_zero(idx[a]):
                    idx[a] = n
            else:
                # transverse components are indexed by the cell along a (0-based interior index)
                if is_zero(idx[a] + 1):
                    idx[a] = n - 1
                elif is_zero(idx[a] - n):
                    idx[a] = ZERO
            return Rat.atom((h, k[1]) + tuple(idx))
        return None
    return fn


def finalize(sm, rep, tier, results):
    rep.floor('permutation obligations', sum(1 for o in rep.obs if o['rule'] == 'A1'), 150)
    rep.floor('embedding obligations', sum(1 for o in rep.obs if o['rule'] == 'A2'), 80)
    rep.floor('mirror obligations', sum(1 for o in rep.obs if o['rule'] == 'A3'), 50)
    rep.floor('seam obligations', sum(1 for o in rep.obs if o['rule'] == 'A4'), 60)
    # positive control: the axis renaming must distinguish an expression that is not symmetric under the swap
    fx, fy = Rat.atom(('f', 'x', Rat.const(1))), Rat.atom(('f', 'y', Rat.const(1)))
    sw = axis_permutation({'x': 'y', 'y': 'x', 'z': 'z'})
    rep.control('A1 separates 2*fx+fy from its x<->y image and accepts fx+fy', not is_zero(deep_map(2 * fx + fy, sw) - (2 * fx + fy)) and is_zero(deep_map(fx + fy, sw) - (fx + fy)))
    rep.samples.append(dict(rule='A1', example='Grid3D diffusion: row (tx,ty,tz) with x<->z swapped in every atom equals row (tz,ty,tx) of the same builder'))


def _fsign_guard_structure(v):
    """every FL(arg) atom of v: each fsign(y) inside arg has y proportional to a difference phi_a - phi_b, and the
    coefficient of the FL atom in v vanishes when phi_a = phi_b"""
    from ..alg import atoms_with_head
    n = 0
    for (aid, k) in atoms_with_head(v, 'fn'):
        if k[1] != 'FL':
            continue
        n += 1
        arg = k[2]
        fs = [kk for (a2, kk) in atoms_with_head(arg, 'fn') if kk[1] == 'fsign']
        if not fs:
            return False, "limiter argument without an _fsign guard"
        try:
            coef, _rest = v.coeff_of(aid)
        except ValueError as e:
            return False, f"limiter value enters non-linearly ({e})"
        for kk in fs:
            y = kk[2]
            phis = [a3 for (a3, k3) in atoms_with_head(y, 'phi')]
            if len(phis) != 2:
                return False, f"guarded quantity {fmt_rat(y, 4)} is not a two-point difference"
            sub = {phis[0]: Rat.atom(atom_key(phis[1]))}
            if not is_zero(y.subs(sub)):
                return False, f"guarded quantity {fmt_rat(y, 4)} does not vanish for equal values"
            if not is_zero(coef.subs(sub)):
                return False, f"limiter factor is not multiplied by the guarded difference {fmt_rat(y, 4)}"
    return True, f"{n} limiter factors, each multiplied by the difference its _fsign guards"
