"""C09 - no stale state: any edit history followed by a solve equals a fresh start.

The dirty-flag / cache protocol is decided as an inductive invariant I:
   "whenever solvePDE reads the cached boundary term, it was computed from the current boundary coefficients,
    or a dirty bit is set"
from rules that each quantify over *all* histories because they constrain every writer, every reader and the
only clearer of the flags:

 P3  TrackedArray (partial evaluation of its four methods over all flag / base configurations): item assignment
     raises the flag on the array and on its tracked base; the getter ORs the base; the setter propagates; new
     arrays start clean
 P1  every public mutator of BoundaryFace (a/b/c/periodic setters, defaultNoFlux, fixedValue, fixedGradient,
     newtonCooling) leaves BoundaryConditions.modified == True; coefficient getters hand out the tracked array
     itself (so slice assignment is tracked); [syntactic] no other store to _a/_b/_c/_periodic
 P2  every writer of CellVariable._value raises value.modified, or is __init__/apply_BCs, or is followed by
     apply_BCs() in the same function (value setter, update_value, solvePDE, solveExplicitPDE; syntactic
     enumeration of all stores to ._value in the package)
 P4  solvePDE entered with dirty boundary conditions (every dirty valuation of the two flags) hands the solver
     the boundary rows of the *current* coefficients even when the cache holds a stale system
 P4e solveExplicitPDE entered with dirty flags leaves the invariant intact for its *input* variable: afterwards either a flag
     is still set or the input's cached boundary term and ghost values are current (the returned variable clears the flag
     object it shares with the input, known finding P7, so the entry guard is what keeps the input consistent)
 P5  apply_BCs recomputes ghost values and the cached boundary term from the current state and only then clears
     both flags
 P9  [who-may-clear] `.modified = False` occurs only in CellVariable.__init__/apply_BCs and inside the
     BoundaryFace/BoundaryConditionsBase `modified` setters
 P7  ownership: two variables must not share one boundary-condition object whose flag either of them clears
     (scenario interpreted symbolically: edit shared BCs, solve both)
 P6  a variable produced by solveExplicitPDE has (or lazily gets) the cache before solvePDE reads it (C04.S7)
 P8u update_value and the value setter copy the data: afterwards the variable shares no storage with its source
 P8  copy() and arithmetic results own deep copies of the BCs and fresh arrays (C14.O4/O6)
 P10 edit histories as user-level statements, explored breadth-first over an abstraction of the protocol state of a variable
     and a copy of it (operations: edit, apply_BCs, explicit step, copy, solve on either) until no new abstract state appears:
     at every solve the system handed to the solver carries the current boundary coefficient and every term exactly once
"""
from __future__ import annotations
import ast
import itertools
from ..alg import Rat, atom_id, atom_key, is_zero, fmt_rat
from ..srcmodel import SourceModel, AnalysisError, MESH_CLASSES
from ..arrays import AbstractRaise, R, ZERO, ONE, snap, Arr, Box, View, const_arr
from ..model import World, AX, DIM, atom_array, FACES
from ..interp import ASparse, AObj, OpaqueFn, PyCallable
from .. import facts as F
from .c12 import flat_vector

PROP = 'C09'
from . import lemmas as _lemmas
LEMMAS = [_lemmas.ALGEBRA]
RULES = {'P1': 'BoundaryFace mutators raise the dirty flag', 'P2': 'writers of _value raise the flag or recompute', 'P3': 'TrackedArray flag semantics',
         'P4': 'solvePDE never uses a stale cached boundary term when a flag is set', 'P4e': 'solveExplicitPDE entered dirty keeps the invariant for its input variable', 'P5': 'apply_BCs recomputes then clears', 'P6': 'cache defined before use',
         'P7': 'no shared boundary-condition object between variables', 'P8': 'copies / arithmetic results independent', 'P9': 'only apply_BCs/__init__ clear the flags', 'P8u': 'update_value / value setter leave no shared storage'}
ASSUMPTIONS = ["numpy's `base` of a view of a TrackedArray is the TrackedArray it was sliced from (views of views collapse to the owner): library behaviour, not decided",
               'the interpreter models TrackedArray item assignment by exactly the behaviour P3 proves for the real class']


def jobs(tier):
    return [('protocol', c, tier) for c in (['Grid1D', 'PolarGrid2D', 'Grid3D'] if tier == 'quick' else MESH_CLASSES)] + [('tracked', 'Grid1D', tier)]


def _bc_dirty(w, bc):
    g = w.sm.find_getter('BoundaryConditionsBase', 'modified')
    return w.interp.call_function(g, [bc], self_obj=bc)


def _clean(bc):
    for f in FACES:
        for c in ('_a', '_b', '_c'):
            bc.attrs[f].attrs[c].attrs['_modified'] = False


def job(args):
    kind, cls, tier = args
    sm = SourceModel()
    obs, samples, units = [], [], set()

    def ob(rule, construct, ok, detail='', loc=''):
        obs.append(dict(rule=rule, construct=construct, ok=bool(ok), detail=(f"[{cls}] " + str(detail))[:1200], loc=loc, nontrivial=True))
    if kind == 'tracked':
        w = World(sm, 'Grid1D')
        ci = sm.cls('TrackedArray')
        units.add('utilities.TrackedArray')
        setitem, getter, setter = ci.methods.get('__setitem__'), ci.getters.get('modified'), ci.setters.get('modified')
        fin, new = ci.methods.get('__array_finalize__'), ci.methods.get('__new__')
        if not all((setitem, getter, setter, fin, new)):
            raise AnalysisError("anchor vanished: TrackedArray methods")

        def mk(flag, base):
            o = AObj('TrackedArray', {'_modified': flag, 'base': base})
            return o
        for sflag, bkind, bflag in itertools.product((False, True), ('none', 'tracked', 'plain'), (False, True)):
            if bkind != 'tracked' and bflag:
                continue
            base = None if bkind == 'none' else (mk(bflag, None) if bkind == 'tracked' else AObj('ndarray_plain', {}))
            # __setitem__
            cfgtxt = f"self flag {sflag}, base {bkind}/{bflag}"
            o = mk(sflag, base)
            try:
                w.interp.call_function(setitem, [o, ZERO, ONE], self_obj=o)
                okk = o.attrs['_modified'] is True and (bkind != 'tracked' or base.attrs['_modified'] is True)
                ob('P3', 'utilities.TrackedArray.__setitem__', okk, f"{cfgtxt}: after item assignment self={o.attrs['_modified']}, base={(base.attrs.get('_modified') if base else None)}", setitem.loc())
            except AbstractRaise as e:
                ob('P3', 'utilities.TrackedArray.__setitem__', False, f"{cfgtxt}: raises {e.exc}: {e.msg}", setitem.loc())
            # getter
            o = mk(sflag, base if bkind != 'tracked' else mk(bflag, None))
            want = sflag or (bkind == 'tracked' and bflag)
            try:
                got = w.interp.call_function(getter, [o], self_obj=o)
                ob('P3', 'utilities.TrackedArray.modified.getter', got is want or got == want, f"{cfgtxt}: getter returns {got}, expected {want}", getter.loc())
            except AbstractRaise as e:
                ob('P3', 'utilities.TrackedArray.modified.getter', False, f"{cfgtxt}: raises {e.exc}: {e.msg}", getter.loc())
            # setter
            for v in (False, True):
                b2 = None if bkind == 'none' else (mk(bflag, None) if bkind == 'tracked' else AObj('ndarray_plain', {}))
                o = mk(sflag, b2)
                try:
                    w.interp.call_function(setter, [o, v], self_obj=o)
                    okk = o.attrs['_modified'] is v and (bkind != 'tracked' or b2.attrs['_modified'] is v)
                    ob('P3', 'utilities.TrackedArray.modified.setter', okk, f"set {v}: self={o.attrs['_modified']}, base={(b2.attrs.get('_modified') if b2 else None)}", setter.loc())
                except AbstractRaise as e:
                    ob('P3', 'utilities.TrackedArray.modified.setter', False, f"{cfgtxt}, set {v}: raises {e.exc}: {e.msg}", setter.loc())
        # __array_finalize__: inherits the parent's flag (a view of a dirty array is dirty), default False
        for pflag in (False, True):
            o = AObj('TrackedArray', {})
            parent = AObj('TrackedArray', {'_modified': pflag})
            w.interp.call_function(fin, [o, parent], self_obj=o)
            ob('P3', 'utilities.TrackedArray.__array_finalize__', o.attrs.get('_modified') is pflag, f"parent flag {pflag} -> new flag {o.attrs.get('_modified')}", fin.loc())
        o = AObj('TrackedArray', {})
        w.interp.call_function(fin, [o, AObj('ndarray_plain', {})], self_obj=o)
        ob('P3', 'utilities.TrackedArray.__array_finalize__', o.attrs.get('_modified') is False, f"plain parent -> flag {o.attrs.get('_modified')}", fin.loc())
        src = ast.unparse(new.node)
        ob('P3', 'utilities.TrackedArray.__new__', '_modified = False' in src and '.view(cls)' in src, "new arrays are views of the input with a clean flag", new.loc())
        return dict(obs=obs, units=sorted(units), samples=samples)

    # ---------------------------------------------------------------- protocol on one class
    w = World(sm, cls)
    d = w.dim
    cb = sm.cls('BoundaryFace')
    units.update({'boundary.BoundaryFace', 'boundary.BoundaryConditionsBase', 'cell.CellVariable', 'pdesolver.solvePDE'})
    # P1
    newv = Rat.atom(('newcoef',))
    mutators = [('a.setter', lambda bf: w.interp.set_attr(bf, 'a', newv, None)), ('b.setter', lambda bf: w.interp.set_attr(bf, 'b', newv, None)),
                ('c.setter', lambda bf: w.interp.set_attr(bf, 'c', newv, None)), ('periodic.setter', lambda bf: w.interp.set_attr(bf, 'periodic', True, None)),
                ('periodic.setter[switch off]', lambda bf: (bf.attrs.__setitem__('_periodic', True), w.interp.set_attr(bf, 'periodic', False, None))),
                ('defaultNoFlux', lambda bf: w.interp.call_function(cb.methods['defaultNoFlux'], [bf], self_obj=bf)),
                ('fixedValue', lambda bf: w.interp.call_function(cb.methods['fixedValue'], [bf, newv], self_obj=bf)),
                ('fixedGradient', lambda bf: w.interp.call_function(cb.methods['fixedGradient'], [bf, newv], self_obj=bf)),
                ('newtonCooling', lambda bf: w.interp.call_function(cb.methods['newtonCooling'], [bf, newv, newv, newv], self_obj=bf)),
                ('a[:] slice assignment', lambda bf: w.interp.store_subscript(w.interp.get_attr(bf, 'a'), (F_sl(),), newv, None)),
                ('c[...] slice assignment', lambda bf: w.interp.store_subscript(w.interp.get_attr(bf, 'c'), (F_sl(),), newv, None))]
    # the same edits and the remaining forms of the edit alphabet as *user-level statements* run by the interpreter (so that
    # python's own protocol applies: `f.c += v` is  tmp = f.c ; tmp.__iadd__(v) [in place, no __setitem__] ; f.c = tmp [setter,
    # handed the very same array]); array-valued right-hand sides in the coefficient's own shape and, on left/right faces,
    # in the shape without the leading unit axis (numpy broadcasts it)
    def snip(src, coef='c'):
        def run(bf):
            shp = tuple(snap(bf.attrs['_' + coef]).shape)
            # `arr`: the coefficient's own shape; `flat`: the same values with the leading unit axis dropped, or - when there is
            # none - with one added (numpy's assignment broadcasting accepts both)
            alt = shp[1:] if (len(shp) > 1 and (shp[0] - 1).is_zero()) else (ONE,) + shp
            env = dict(f=bf, v=newv, arr=Box(Arr(shp, lambda idx: Rat.atom(('newarr',) + tuple(idx)))),
                       flat=Box(Arr(alt, lambda idx: Rat.atom(('newarr',) + tuple(idx)))))
            w.interp.run_snippet(src, env)
        return run
    for coef in 'abc':
        for form in ('f.{c} = v', 'f.{c}[:] = v', 'f.{c}[...] = v', 'f.{c} += v', 'f.{c} -= v', 'f.{c} *= v', 'f.{c} /= v', 'f.{c}[:] += v',
                     'f.{c}[:] *= v', 'f.{c} = arr', 'f.{c}[:] = arr', 'f.{c} += arr', 'f.{c} = flat', 'f.{c} = f.{c} + v', 'f.{c} = 2 * f.{c}',
                     'x = f.{c}\nx[:] = v', 'x = f.{c}\nx[0] = v', 'f.{c}[0] = v', 'f.{c}[-1] += v'):
            if tier == 'quick' and coef != 'c' and form not in ('f.{c} += v', 'f.{c} = arr', 'f.{c} = flat', 'f.{c}[:] *= v'):
                continue
            src = form.format(c=coef)
            mutators.append((f"stmt[{src.replace(chr(10), '; ')}]", snip(src, coef)))
    for src in ('f.periodic = True', 'f.periodic = not f.periodic', 'f.fixedValue(v)', 'f.fixedValue(arr)', 'f.fixedGradient(v)', 'f.fixedGradient(arr)',
                'f.newtonCooling(v, v, v)', 'f.defaultNoFlux()'):
        mutators.append((f"stmt[{src}]", snip(src)))
    faces = FACES[:2 * d]
    for mname, fn in mutators:
        for face in faces:
            bc = w.boundary_conditions()
            _clean(bc)
            if _bc_dirty(w, bc):
                ob('P1', f"boundary.BoundaryFace.{mname}", False, "flags not clean after construction", cb.loc())
                continue
            try:
                fn(bc.attrs[face])
                dirty = _bc_dirty(w, bc)
                ob('P1', f"boundary.BoundaryFace.{mname}", dirty is True, f"face {face}: BoundaryConditions.modified after the edit = {dirty}", cb.loc())
            except AbstractRaise as e:
                ob('P1', f"boundary.BoundaryFace.{mname}", False, f"face {face}: raises {e.exc}: {e.msg}", cb.loc())
    # coefficient getters hand out the tracked array itself
    bc = w.boundary_conditions()
    for coef in 'abc':
        got = w.interp.get_attr(bc.attrs['left'], coef)
        ob('P1', f"boundary.BoundaryFace.{coef}.getter", got is bc.attrs['left'].attrs['_' + coef] and got.attrs.get('tracked'), "getter returns the tracked coefficient array itself", cb.loc())
    # P2 semantic: value setter and update_value
    cv = sm.cls('CellVariable')
    bc = w.boundary_conditions()
    phi = w.interp.instantiate('CellVariable', [w.mesh, Rat.atom(('init',)), bc])
    def vdirty(v):
        return bool(v.attrs['_value'].attrs.get('_modified'))
    ob('P2', 'cell.CellVariable.__init__', not vdirty(phi) and not _bc_dirty(w, bc), "a new variable starts clean", cv.loc())
    w.interp.set_attr(phi, 'value', Rat.atom(('v2',)), None)
    ob('P2', 'cell.CellVariable.value.setter', vdirty(phi), f"value.modified after assignment = {vdirty(phi)}", cv.setters['value'].loc())
    phi2 = w.interp.instantiate('CellVariable', [w.mesh, Rat.atom(('init',)), w.boundary_conditions()])
    other = w.interp.instantiate('CellVariable', [w.mesh, Rat.atom(('o',)), w.boundary_conditions()])
    w.interp.call_function(cv.methods['update_value'], [phi2, other], self_obj=phi2)
    ob('P2', 'cell.CellVariable.update_value', vdirty(phi2), f"value.modified after update_value = {vdirty(phi2)}", cv.methods['update_value'].loc())
    gv = w.interp.get_attr(phi2, 'value')
    ob('P2', 'cell.CellVariable.value.getter', isinstance(gv, View) and gv.root_box() is phi2.attrs['_value'], "value is a view of the tracked array (slice assignment reaches its base, P3)", cv.getters['value'].loc())
    # P5 apply_BCs
    for precalc, bflag, vflag in ((True, True, True), (False, True, True), (True, False, True), (True, True, False), (True, False, False)):
        bc = w.boundary_conditions()
        phi = w.cell_variable('phi', bc)
        phi.attrs['BCsTerm_precalc'] = precalc
        stale_bc = w.boundary_conditions(name='stale')
        stale = w.call('boundary', 'boundaryConditionsTerm', stale_bc)
        if precalc:
            phi.attrs['_BCsTerm'] = stale
        # apply_BCs is the one place that re-establishes the invariant: whatever the flags say, afterwards ghosts and cache
        # are those of the current coefficients (the flag object may be shared and already cleared by another holder)
        bc.attrs['left'].attrs['_a'].attrs['_modified'] = bflag
        phi.attrs['_value'].attrs['_modified'] = vflag
        ftxt = '' if (bflag and vflag) else f"/BCs.modified={bflag},value.modified={vflag}"
        w.interp.call_function(cv.methods['apply_BCs'], [phi], self_obj=phi)
        val = snap(phi.attrs['_value'])
        interior = Box(Arr(tuple(w.N), lambda idx: Rat.atom(('phi',) + tuple(i + 1 for i in idx))))
        expect = snap(w.call('boundary', 'cellValuesWithBoundaries', interior, bc))
        G = tuple(ZERO if k == 0 else w.t[k] for k in range(d))
        ob('P5', f"cell.CellVariable.apply_BCs/precalc={precalc}{ftxt}", is_zero(val.at(G) - expect.at(G)) and is_zero(val.at(tuple(w.t)) - Rat.atom(('phi',) + tuple(w.t))),
           f"ghost {F.cstr(G)} recomputed from the current coefficients: {fmt_rat(val.at(G), 5)}", cv.methods['apply_BCs'].loc())
        ob('P5', f"cell.CellVariable.apply_BCs/precalc={precalc}{ftxt}/flags", (not _bc_dirty(w, bc)) and not vdirty(phi), "both flags clear afterwards", cv.methods['apply_BCs'].loc())
        if precalc:
            M, _r = phi.attrs['_BCsTerm']
            row = F.row_by_col(w, w.matrix_row(M, G))
            names = {atom_key(a)[0] for (c, v) in row.values() for a in v.atoms() if isinstance(atom_key(a), tuple)}
            ob('P5', f"cell.CellVariable.apply_BCs/precalc={precalc}{ftxt}/cache", 'bc' in names and 'stale' not in names, f"cached boundary row mentions coefficient sets {sorted(n for n in names if n in ('bc', 'stale'))}", cv.methods['apply_BCs'].loc())
    # P4 solvePDE with stale cache and dirty flags
    fs = sm.func('pdesolver', 'solvePDE')
    for bdirty, vd in ((True, False), (True, True), (False, True), (False, False)):
        bc = w.boundary_conditions()
        phi = w.cell_variable('phi', bc)
        phi.attrs['BCsTerm_precalc'] = True
        stale_bc = w.boundary_conditions(name='stale')
        phi.attrs['_BCsTerm'] = w.call('boundary', 'boundaryConditionsTerm', stale_bc if bdirty else bc)
        bc.attrs['left'].attrs['_c'].attrs['_modified'] = bdirty
        phi.attrs['_value'].attrs['_modified'] = vd
        rec = []
        ext = PyCallable(lambda a, k: (rec.append(a), Box(flat_vector(w, 'sol')))[1])
        w.interp.solver_hook = lambda name, a, k: (rec.append(a), Box(flat_vector(w, 'sol')))[1]     # whichever solver is called
        Mt = w.call('source', 'linearSourceTerm', w.cell_variable('beta'))
        try:
            w.call('pdesolver', 'solvePDE', phi, [Mt], ext)
            G = tuple(ZERO if k == 0 else w.t[k] for k in range(d))
            if not rec:
                ob('P4', f"pdesolver.solvePDE/BCs.modified={bdirty},value.modified={vd}", False, "solvePDE returned without handing the system to any solver", fs.loc())
                continue
            row = F.row_by_col(w, w.matrix_row(rec[0][0], G))
            names = {atom_key(a)[0] for (c, v) in row.values() for a in v.atoms() if isinstance(atom_key(a), tuple)}
            ob('P4', f"pdesolver.solvePDE/BCs.modified={bdirty},value.modified={vd}", 'stale' not in names and 'bc' in names,
               f"boundary row handed to the solver mentions coefficient sets {sorted(n for n in names if n in ('bc', 'stale'))}", fs.loc())
        except AbstractRaise as e:
            ob('P4', f"pdesolver.solvePDE/BCs.modified={bdirty},value.modified={vd}", False, f"raises {e.exc}: {e.msg}", fs.loc())
    # P7 shared BC object
    bc = w.boundary_conditions()
    _clean(bc)
    v1 = w.interp.instantiate('CellVariable', [w.mesh, Rat.atom(('i1',)), bc])
    v2 = w.interp.instantiate('CellVariable', [w.mesh, Rat.atom(('i2',)), bc])
    shared = v1.attrs['BCs'] is v2.attrs['BCs']
    # edit the shared object, solve v1 then v2
    w.interp.set_attr(bc.attrs['left'], 'c', Rat.atom(('cnew',)), None)
    rec = []
    ext = PyCallable(lambda a, k: (rec.append(a), Box(flat_vector(w, 'sol')))[1])
    w.interp.solver_hook = lambda name, a, k: (rec.append(a), Box(flat_vector(w, 'sol')))[1]     # whichever solver is called
    Mt = w.call('source', 'linearSourceTerm', w.cell_variable('beta'))
    stale_seen = None
    try:
        w.call('pdesolver', 'solvePDE', v1, [Mt], ext)
        w.call('pdesolver', 'solvePDE', v2, [Mt], ext)
        G = tuple(ZERO if k == 0 else w.t[k] for k in range(d))
        if len(rec) < 2:
            raise AbstractRaise('RuntimeError', 'solvePDE returned without handing the system to any solver')
        r2 = w.vector_at(rec[1][1], G)
        stale_seen = not any(isinstance(atom_key(a), tuple) and atom_key(a)[0] == 'cnew' for a in r2.atoms())
    except AbstractRaise as e:
        stale_seen = True
    ob('P7', 'cell.CellVariable.__init__/shared-BC-object', not (shared and stale_seen),
       "two variables constructed with one BoundaryConditions object share its dirty flag: after an edit, the first solve clears it and the second solve uses its stale cached boundary term"
       if (shared and stale_seen) else "boundary-condition objects are not shared (or the second solve sees the edit)", cv.methods['__init__'].loc())
    fe = sm.func('pdesolver', 'solveExplicitPDE')
    bc = w.boundary_conditions()
    old = w.cell_variable('phi', bc)
    new = w.call('pdesolver', 'solveExplicitPDE', old, Rat.atom(('dt',)), flat_vector(w, 'rhs'))
    ob('P7', 'pdesolver.solveExplicitPDE/shared-BC-object', new.attrs.get('BCs') is not old.attrs.get('BCs'),
       "the variable returned by solveExplicitPDE holds the very BoundaryConditions object of its input (shared dirty flag)" if new.attrs.get('BCs') is old.attrs.get('BCs') else "BCs not shared", fe.loc())
    # P8u update_value / value setter copy the data: no storage shared with the source afterwards
    from .c14 import boxes_of
    for how in ('update_value', 'value-setter'):
        a_ = w.cell_variable('A', w.boundary_conditions(name='bcA'))
        b_ = w.cell_variable('B', w.boundary_conditions(name='bcB'))
        a_.attrs['_value'].frozen = None           # the target is meant to be written
        try:
            if how == 'update_value':
                w.interp.call_function(cv.methods['update_value'], [a_, b_], self_obj=a_)
                src = boxes_of(b_, skip=('domain', 'BCs'))
            else:
                arr = Box(atom_array(('arr',), w.N, offset=tuple(ONE for _ in w.N)))
                arr.frozen = 'arr'
                w.interp.set_attr(a_, 'value', arr, None)
                src = boxes_of(arr)
            mine = boxes_of(a_, skip=('domain', 'BCs'))
            shared = [k for k in mine if k in src]
            ob('P8u', f"cell.CellVariable.{how}", not shared,
               f"after {how} the variable shares storage {shared[:3]} with its source: an in-place edit of either changes the other" if shared
               else f"{how} copies the values (no shared storage)", cv.methods['update_value'].loc())
        except AbstractRaise as e:
            ob('P8u', f"cell.CellVariable.{how}", False, f"raises {e.exc}: {e.msg}", cv.methods['update_value'].loc())
    # P4e solveExplicitPDE entered dirty: the invariant must hold for the *input* variable afterwards
    for bdirty, vd in ((True, False), (True, True), (False, True)):
        bc = w.boundary_conditions()
        old = w.cell_variable('phi', bc)
        old.attrs['BCsTerm_precalc'] = True
        stale_bc = w.boundary_conditions(name='stale')
        old.attrs['_BCsTerm'] = w.call('boundary', 'boundaryConditionsTerm', stale_bc if bdirty else bc)
        bc.attrs['left'].attrs['_c'].attrs['_modified'] = bdirty
        old.attrs['_value'].attrs['_modified'] = vd
        construct = f"pdesolver.solveExplicitPDE/BCs.modified={bdirty},value.modified={vd}"
        try:
            w.call('pdesolver', 'solveExplicitPDE', old, Rat.atom(('dt',)), flat_vector(w, 'rhs'))
        except AbstractRaise as e:
            ob('P4e', construct, False, f"raises {e.exc}: {e.msg}", fe.loc())
            continue
        still_dirty = bool(_bc_dirty(w, old.attrs['BCs'])) or vdirty(old)
        G = tuple(ZERO if k == 0 else w.t[k] for k in range(d))
        ct = old.attrs.get('_BCsTerm')
        names = set()
        if isinstance(ct, tuple) and isinstance(ct[0], ASparse):
            row = F.row_by_col(w, w.matrix_row(ct[0], G))
            names = {atom_key(a)[0] for (c, v) in row.values() for a in v.atoms() if isinstance(atom_key(a), tuple)}
        cache_ok = 'stale' not in names and 'bc' in names
        val = snap(old.attrs['_value'])
        interior = Box(Arr(tuple(w.N), lambda idx: Rat.atom(('phi',) + tuple(i + 1 for i in idx))))
        expect = snap(w.call('boundary', 'cellValuesWithBoundaries', interior, bc))
        ghosts_ok = is_zero(val.at(G) - expect.at(G))
        ob('P4e', construct, still_dirty or (cache_ok and ghosts_ok),
           f"after the explicit step the input variable is {'still flagged dirty' if still_dirty else 'flagged clean'}; its cached boundary row mentions "
           f"{sorted(n for n in names if n in ('bc', 'stale'))}; ghost values {'current' if ghosts_ok else 'stale'} "
           "(invariant: clean flags imply current cache and ghosts - the returned variable shares the flag object and clears it)", fe.loc())
    # P10 edit histories, run as user-level statements by the interpreter on variables built by the real constructor.
    # The state space is explored breadth-first over an abstraction of the protocol state - per live variable: the
    # BCsTerm_precalc option, whether the cached boundary term is absent / current / stale / polluted, the two dirty flags; for
    # the pair (a variable and a copy of it): which objects they share - until no new abstract state appears, i.e. for histories
    # of any length.  Operations: edit a boundary coefficient (a fresh value each time), apply_BCs(), v = solveExplicitPDE(v, ..),
    # o = v.copy(), and solvePDE on either variable.  At every solvePDE the system handed to the solver must carry the *current*
    # coefficient of the edited face and no earlier one, and every term exactly once in an interior row (exact: all values are
    # distinct atoms).  This complements the inductive rules P1..P9 with the states only copies / explicit results reach.
    if cls in ('Grid1D', 'Grid2D', 'Grid3D') or tier != 'quick':        # quick: one class per dimension (the boundary term differs per dimension)
        from ..interp import AFuncRef
        from ..npmodel import deep_copy
        fsolve, fexp = sm.func('pdesolver', 'solvePDE'), sm.func('pdesolver', 'solveExplicitPDE')
        hi_face = FACES[0]                                            # the low face of the first axis, as in P4
        Gh = tuple(ZERO if k == 0 else w.t[k] for k in range(d))
        Pin = tuple(w.t)
        rec = []
        sol = lambda a, k: (rec.append(a), Box(flat_vector(w, 'sol')))[1]
        w.interp.solver_hook = lambda name, a, k: sol(a, k)
        gam = w.cell_variable('gamma')
        base = dict(solvePDE=AFuncRef(fsolve), solveExplicitPDE=AFuncRef(fexp), ext=PyCallable(sol), dt=Rat.atom(('dt',)),
                    rhs=Box(flat_vector(w, 'rhs')), Mt=w.call('source', 'linearSourceTerm', w.cell_variable('beta')),
                    Rt=w.call('source', 'constantSourceTerm', gam))
        gam_P = Rat.atom(('gamma',) + Pin)

        def coef_names(r):
            return frozenset(atom_key(a)[0] for a in r.atoms() if isinstance(atom_key(a), tuple) and (str(atom_key(a)[0]).startswith('edit') or atom_key(a)[0] == 'bc'))

        def cur_coef(v):
            c = snap(v.attrs['BCs'].attrs[hi_face].attrs['_c'])
            return coef_names(c.at(tuple(ZERO for _ in c.shape)))

        def var_state(v):
            if v is None:
                return None
            ct = v.attrs.get('_BCsTerm')
            cache = 'absent'
            if isinstance(ct, tuple) and len(ct) == 2:
                try:
                    cache = 'current' if coef_names(w.vector_at(ct[1], Gh)) == cur_coef(v) else 'stale'
                    if not is_zero(w.vector_at(ct[1], Pin)):
                        cache += '+polluted'
                except (AnalysisError, AbstractRaise):
                    cache = 'unreadable'
            bcd = bool(_bc_dirty(w, v.attrs['BCs']))
            return (v.attrs.get('BCsTerm_precalc'), cache, bcd, vdirty(v))

        def pair_state(v, o):
            sh = ()
            if o is not None:
                tv, to = v.attrs.get('_BCsTerm'), o.attrs.get('_BCsTerm')
                sh = (v.attrs['BCs'] is o.attrs['BCs'], tv is not None and tv is to,
                      isinstance(tv, tuple) and isinstance(to, tuple) and len(tv) == 2 and len(to) == 2 and tv[1] is to[1],
                      v.attrs['_value'] is o.attrs['_value'])
            return (var_state(v), var_state(o), sh)
        OPS = {'Ev': "v.BCs.{f}.c = cnew", 'Eo': "o.BCs.{f}.c = cnew", 'Av': 'v.apply_BCs()', 'Ao': 'o.apply_BCs()', 'X': 'v = solveExplicitPDE(v, dt, rhs)',
               'C': 'o = v.copy()', 'Sv': 'solvePDE(v, [Mt, Rt], ext)', 'So': 'solvePDE(o, [Mt, Rt], ext)'}
        v0 = w.interp.instantiate('CellVariable', [w.mesh, Rat.atom(('init',)), w.boundary_conditions()])
        seen = {pair_state(v0, None): ''}
        frontier = [((v0, None), [], [])]
        ntrans, nedit, limit = 0, 0, (400 if tier == 'quick' else 1500)
        while frontier and ntrans < limit:
            (v, o), path, codes = frontier.pop(0)
            for op, tmpl in OPS.items():
                if op.endswith('o') and o is None:
                    continue
                ntrans += 1
                v2, o2 = deep_copy((v, o), {})
                env = dict(base, v=v2, o=o2)
                if op[0] == 'E':
                    nedit += 1
                    env['cnew'] = Rat.atom((f'edit{nedit}',))
                line = tmpl.format(f=hi_face)
                hist = '; '.join(path + [line])
                rec.clear()
                try:
                    out = w.interp.run_snippet(line, env)
                except AbstractRaise as e:
                    ob('P10', f"history/{op}", False, f"history {hist} :: raises {e.exc}: {e.msg}", fs.loc())
                    continue
                v3, o3 = out['v'], out.get('o')
                if op[0] == 'S':
                    tgt = v3 if op == 'Sv' else o3
                    if not rec:
                        okh, why = False, 'solvePDE handed the system to no solver'
                    else:
                        got = coef_names(w.vector_at(rec[-1][1], Gh))
                        rin = w.vector_at(rec[-1][1], Pin)
                        okh = got == cur_coef(tgt) and is_zero(rin - gam_P)
                        why = (f"boundary row of the {hi_face} face carries {sorted(got)}, current coefficient is {sorted(cur_coef(tgt))}; "
                               f"interior right-hand side {fmt_rat(rin, 4)} (expected the source term once: {fmt_rat(gam_P, 3)})")
                    ob('P10', 'history/' + ('-'.join(codes[-4:] + [op]) or 'start'), okh, f"history {hist} :: {why}", fs.loc())
                kk = pair_state(v3, o3)
                if kk not in seen:
                    seen[kk] = hist
                    frontier.append(((v3, o3), path + [line], codes + [op]))
        notes_p10 = f"[{cls}] {len(seen)} abstract protocol states reached, {ntrans} transitions explored" + ('' if not frontier else f" (budget of {limit} transitions reached with {len(frontier)} states unexpanded)")
        obs.append(dict(rule='P10', construct='history/state-space', ok=True, detail=notes_p10, loc=fs.loc(), nontrivial=False))
        units.update({'pdesolver.solveExplicitPDE', 'cell.CellVariable.copy', 'cell.CellVariable.apply_BCs'})
    return dict(obs=obs, units=sorted(units), samples=samples, funcs=sorted(w.interp.funcs_seen))


def F_sl():
    from ..arrays import Sl
    return Sl(None, None)


# ----------------------------------------------------------------------------------------------
def global_rules(sm, rep, tier):
    # P1 syntactic: stores to BoundaryFace private state
    cb = sm.cls('BoundaryFace')
    for fi in list(cb.methods.values()) + list(cb.setters.values()) + list(cb.getters.values()):
        for node in ast.walk(fi.node):
            tgts = []
            if isinstance(node, ast.Assign):
                tgts = node.targets
            elif isinstance(node, ast.AugAssign):
                tgts = [node.target]
            for t in tgts:
                if isinstance(t, ast.Attribute) and isinstance(t.value, ast.Name) and t.value.id == 'self' and t.attr in ('_a', '_b', '_c', '_periodic'):
                    if fi.name == '__init__':
                        ok, why = True, 'constructor'
                    elif t.attr == '_periodic':
                        src = ast.unparse(fi.node)
                        ok = 'self.modified = True' in src
                        why = 'accompanied by self.modified = True' if ok else 'flag not raised'
                    else:
                        ok, why = False, 'rebinding a coefficient array outside __init__ loses the dirty flag (use item assignment)'
                    rep.ob('P1', f"boundary.BoundaryFace.{fi.name}/store={t.attr}", ok, why, f"src/pyfvtool/boundary.py:{node.lineno}")
    # P2 syntactic: all stores to <x>._value in the package
    count = 0
    for fi in sm.all_functions():
        src_lines = None
        for node in ast.walk(fi.node):
            tgt = None
            if isinstance(node, ast.Assign):
                for t in node.targets:
                    if isinstance(t, ast.Attribute) and t.attr == '_value':
                        tgt = t
            if isinstance(node, ast.Call) and isinstance(node.func, ast.Attribute) and node.func.attr == 'copyto' and node.args \
                    and isinstance(node.args[0], ast.Attribute) and node.args[0].attr == '_value':
                tgt = node.args[0]
            if tgt is None:
                continue
            count += 1
            owner = ast.unparse(tgt.value)
            body_src = ast.unparse(fi.node)
            if fi.cls == 'CellVariable' and fi.name in ('__init__', 'apply_BCs'):
                ok, why = True, 'constructor / apply_BCs (flags reset there)'
            elif f"{owner}.apply_BCs()" in body_src.split(ast.unparse(node))[-1]:
                ok, why = True, f"followed by {owner}.apply_BCs()"
            elif f"{owner}._value.modified = True" in body_src.split(ast.unparse(node))[-1]:
                ok, why = True, 'followed by _value.modified = True'
            else:
                ok, why = False, 'store to ._value that neither raises the flag nor recomputes the ghost layer'
            rep.ob('P2', f"{fi.module}.{fi.qualname}/store=_value", ok, why, f"src/pyfvtool/{fi.module}.py:{node.lineno}")
    rep.floor('stores to ._value found in the package', count, 5)
    # P9 who may clear
    for fi in sm.all_functions():
        for node in ast.walk(fi.node):
            if isinstance(node, ast.Assign) and isinstance(node.value, ast.Constant) and node.value.value is False:
                for t in node.targets:
                    if isinstance(t, ast.Attribute) and t.attr in ('modified', '_modified'):
                        allowed = (fi.cls == 'CellVariable' and fi.name in ('__init__', 'apply_BCs')) or \
                                  (fi.cls in ('BoundaryConditionsBase', 'BoundaryFace') and fi.name == 'modified') or \
                                  (fi.cls == 'TrackedArray' and fi.name in ('__new__',))
                        rep.ob('P9', f"{fi.module}.{fi.qualname}/clears-flag", allowed, f"`{ast.unparse(node)}`" + ('' if allowed else ' outside the recompute path'), f"src/pyfvtool/{fi.module}.py:{node.lineno}")


def finalize(sm, rep, tier, results):
    rep.floor('TrackedArray configurations', sum(1 for o in rep.obs if o['rule'] == 'P3'), 30)
    rep.floor('mutator obligations', sum(1 for o in rep.obs if o['rule'] == 'P1'), 60)
    rep.floor('solvePDE flag valuations', sum(1 for o in rep.obs if o['rule'] == 'P4'), 12)
    rep.samples.append(dict(rule='P4', scenario='cache holds the boundary system of a stale coefficient set; BCs.modified=True; solvePDE([linearSourceTerm]) -> rows handed to the solver must mention only the current coefficient atoms'))
    rep.notes.append('P6 is decided by C04.S7 and P8 by C14.O4/O6 (same interpreter, not repeated here)')
    rep.floor('apply_BCs flag valuations', len({o['construct'] for o in rep.obs if o['rule'] == 'P5'}), 10)
    # positive controls: the storage-sharing machinery must see a view, and a store through it must be attributed to the owner
    from ..arrays import Ctx, const_arr
    from ..interp import Interp
    from .c14 import boxes_of
    it = Interp(sm, Ctx())
    owner = Box(const_arr((Rat.const(3),), ZERO))
    owner.frozen = 'owner'
    view = it.instantiate('TrackedArray', [owner])
    rep.control('P8u sees the storage shared by TrackedArray(x) and x', ('box', owner.id) in boxes_of(view))
    it.events.clear()
    it.store_subscript(view, (Rat.const(0),), ONE, None)
    rep.control('a store through a view is attributed to the owner', any(e[0] == 'input-mutated' and e[1] == 'owner' for e in it.events))
