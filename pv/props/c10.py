"""C10 - grid geometry is exact.

mesh.py is interpreted symbolically (sizes N, face positions f[i] as atoms) for each of the 9 classes
and both constructor forms; the resulting arrays are compared with the statement of the property:

 G0  dims == (N per axis)
 G1  face-array form: facecenters[i] == f[i]; cellcenters[p] == (f[p]+f[p+1])/2;
     cellsize[c] == f[c]-f[c-1] (1<=c<=N); ghost sizes cellsize[0]==cellsize[1], cellsize[N+1]==cellsize[N]
 G2  (N, L) form == face form on the equispaced faces i*L/N (sizes, centres, faces)
 G3  <Class>._getCellVolumes == geometric volume of the cell in the class's coordinate system
     (Cartesian product; annular sector (r2^2-r1^2)/2*dtheta*dz; spherical shell sector
     (r2^3-r1^3)/3*(cos th1-cos th2)*dphi ; missing angular/axial extents are the full ones: 2pi, [0,pi], unit length)
 G4  volumes are positive under the preconditions (faces increasing, r >= 0)
 G5  coordinate labels: CellProp.<label> returns the internal array exactly for the labels of the class
     (table docs/user_guide/meshes.md) and raises AttributeError for all others
"""
from __future__ import annotations
import itertools
from ..alg import Rat, atom_key, is_zero, fmt_rat
from ..srcmodel import SourceModel, AnalysisError, MESH_CLASSES
from ..arrays import AbstractRaise, R, ZERO, ONE, snap, opaque_fn, Box, View, Arr
from ..model import World, AX, DIM
from .. import facts as F

PROP = 'C10'
RULES = {'G0': 'dims', 'G1': 'face-array constructor form', 'G2': '(N,L) form equals face form on equispaced faces',
         'G3': 'cellvolume == geometric cell volume', 'G4': 'volumes positive', 'G5': 'coordinate labels per class'}
ASSUMPTIONS = ['faces strictly increasing; radial faces >= 0; theta in [0,pi] on spherical grids (np.abs dropped under these)',
               'oracle for G3: the closed forms in the property statement; for G5: the table in docs/user_guide/meshes.md cross-checked with the coordlabels literals of mesh.py']

LABELS = {'Grid1D': {'x': '_x'}, 'CylindricalGrid1D': {'r': '_x'}, 'SphericalGrid1D': {'r': '_x'},
          'Grid2D': {'x': '_x', 'y': '_y'}, 'CylindricalGrid2D': {'r': '_x', 'z': '_y'}, 'PolarGrid2D': {'r': '_x', 'theta': '_y'},
          'Grid3D': {'x': '_x', 'y': '_y', 'z': '_z'}, 'CylindricalGrid3D': {'r': '_x', 'theta': '_y', 'z': '_z'},
          'SphericalGrid3D': {'r': '_x', 'theta': '_y', 'phi': '_z'}}
ALL_LABELS = ['x', 'y', 'z', 'r', 'theta', 'phi']


def jobs(tier):
    out = [(c, tier) for c in MESH_CLASSES]
    table = F.QUICK_SMALL_SIZES if tier == 'quick' else F.SMALL_SIZES
    for c in MESH_CLASSES:
        for sz in table[DIM[c]]:
            out.append((c, tier, sz))
        out.append((c, tier, table[DIM[c]][-1], 'int'))     # integer-dtype face positions
    return out


def small_job(cls, tier, sizes, dtype='real'):
    """concrete cell counts (down to one cell per axis), symbolic face positions: every index, both constructor forms"""
    sm = SourceModel()
    obs = []
    ci = sm.cls(cls)

    def ob(rule, construct, ok, detail=''):
        obs.append(dict(rule=rule, construct=construct, ok=bool(ok), detail=(f"[{cls} sizes={sizes}{' dtype=int' if dtype == 'int' else ''}] " + str(detail))[:900], loc=ci.loc(), nontrivial=True))
    for uniform in (False, True):
        try:
            w = World(sm, cls, sizes=sizes, uniform=uniform, int_data=(dtype == 'int'))
        except AbstractRaise as e:
            ob('G1' if not uniform else 'G2', f"mesh.{cls}/construct", False, f"constructor raises {e.exc}: {e.msg} ({'(N,L)' if uniform else 'face'} form)")
            continue
        d = w.dim
        rule = 'G2' if uniform else 'G1'
        for k in range(d):
            ax = AX[k]
            n = sizes[k]
            size = snap(w.mesh.attrs['cellsize'].attrs['_' + ax])
            cen = snap(w.mesh.attrs['cellcenters'].attrs['_' + ax])
            fac = snap(w.mesh.attrs['facecenters'].attrs['_' + ax])
            okshape = all(x.shape[0].is_const() for x in (size, cen, fac)) and (size.shape[0].as_int(), cen.shape[0].as_int(), fac.shape[0].as_int()) == (n + 2, n, n + 1)
            ob(rule, f"mesh.{cls}/axis={ax}/shapes", okshape, f"lengths {size.shape[0]}, {cen.shape[0]}, {fac.shape[0]}")
            if not okshape:
                continue
            if uniform:
                L = Rat.atom(('L', ax))

                def fpos(i):
                    return L * i / n
            else:
                def fpos(i, ax=ax):
                    return f(ax, i)
            bad = []
            for c in range(1, n + 1):
                if not is_zero(size.at((Rat.const(c),)) - (fpos(c) - fpos(c - 1))):
                    bad.append(f"cellsize[{c}]")
            if not is_zero(size.at((ZERO,)) - size.at((ONE,))):
                bad.append('ghost size low')
            if not is_zero(size.at((Rat.const(n + 1),)) - size.at((Rat.const(n),))):
                bad.append('ghost size high')
            for p in range(n):
                if not is_zero(cen.at((Rat.const(p),)) - (fpos(p) + fpos(p + 1)) / 2):
                    bad.append(f"cellcenters[{p}]")
            for i in range(n + 1):
                if not is_zero(fac.at((Rat.const(i),)) - fpos(i)):
                    bad.append(f"facecenters[{i}]")
            ob(rule, f"mesh.{cls}/axis={ax}/small-grid", not bad, f"{'(N,L)' if uniform else 'face-array'} form: wrong entries {bad[:4]}" if bad else f"{'(N,L)' if uniform else 'face-array'} form: all {3 * n + 4} entries")
        if not uniform:
            vol = w.volume()
            for P in itertools.product(*[[Rat.const(i) for i in range(1, n + 1)] for n in sizes]):
                v = w.vol_at(P)
                e = expected_volume(cls, P)
                okv = is_zero(v - e)
                cons = f"mesh.{cls}._getCellVolumes"
                if not okv and cls == 'SphericalGrid3D':
                    pi = Rat.atom(('pi',))
                    frac = Rat.const(4) / 3 * pi * (f('x', P[0]) ** 3 - f('x', P[0] - 1) ** 3) * ((f('y', P[1]) - f('y', P[1] - 1)) / pi) * ((f('z', P[2]) - f('z', P[2] - 1)) / (2 * pi))
                    if is_zero(v - frac):
                        cons += '[theta-weighted-by-dtheta/pi]'
                ob('G3', cons, okv, f"cell {F.cstr(P)}: cellvolume = {fmt_rat(v, 6)}")
    return dict(obs=obs, units=[f"mesh.{cls}.__init__"], samples=[])


def f(ax, i):
    return Rat.atom(('f', ax, R(i)))


def expected_volume(cls, P):
    """geometric volume of interior cell P (full coordinates)"""
    pi = Rat.atom(('pi',))
    d = [f(AX[k], P[k]) - f(AX[k], P[k] - 1) for k in range(len(P))]
    r1, r2 = f('x', P[0] - 1), f('x', P[0])
    if cls in ('Grid1D', 'Grid2D', 'Grid3D'):
        v = ONE
        for x in d:
            v = v * x
        return v
    if cls == 'CylindricalGrid1D':
        return (r2 * r2 - r1 * r1) / 2 * (2 * pi)
    if cls == 'CylindricalGrid2D':
        return (r2 * r2 - r1 * r1) / 2 * (2 * pi) * d[1]
    if cls == 'PolarGrid2D':
        return (r2 * r2 - r1 * r1) / 2 * d[1]
    if cls == 'CylindricalGrid3D':
        return (r2 * r2 - r1 * r1) / 2 * d[1] * d[2]
    if cls == 'SphericalGrid1D':
        return (r2 ** 3 - r1 ** 3) / 3 * 2 * (2 * pi)
    if cls == 'SphericalGrid3D':
        c1 = opaque_fn('cos', f('y', P[1] - 1))
        c2 = opaque_fn('cos', f('y', P[1]))
        return (r2 ** 3 - r1 ** 3) / 3 * (c1 - c2) * d[2]
    raise AnalysisError(cls)


def job(args):
    if len(args) > 2:
        return small_job(*args)
    cls, tier = args
    sm = SourceModel()
    w = World(sm, cls)
    obs, samples, units = [], [], set()
    ci = sm.cls(cls)
    loc = ci.loc()

    def ob(rule, construct, ok, detail='', loc_=None):
        obs.append(dict(rule=rule, construct=construct, ok=bool(ok), detail=str(detail)[:1500], loc=loc_ or loc, nontrivial=True))
    d = w.dim
    mesh = w.mesh
    units.update({f"mesh.{cls}.__init__", f"mesh.{cls}._getCellVolumes", f"mesh._mesh_{d}d_param"})
    # G0
    dims = snap(mesh.attrs['dims'])
    ok = dims.ndim == 1 and dims.shape[0].is_const() and dims.shape[0].as_int() == d and \
        all(is_zero(dims.at((Rat.const(k),)) - w.N[k]) for k in range(d))
    ob('G0', f"mesh.{cls}/dims", ok, f"dims = {[str(dims.at((Rat.const(k),))) for k in range(dims.shape[0].as_int())]}")
    cs, cc, fc = mesh.attrs['cellsize'], mesh.attrs['cellcenters'], mesh.attrs['facecenters']
    for k in range(d):
        ax = AX[k]
        n = w.N[k]
        size = snap(cs.attrs['_' + ax])
        cen = snap(cc.attrs['_' + ax])
        fac = snap(fc.attrs['_' + ax])
        shp_ok = is_zero(size.shape[0] - (n + 2)) and is_zero(cen.shape[0] - n) and is_zero(fac.shape[0] - (n + 1))
        ob('G1', f"mesh.{cls}/axis={ax}/shapes", shp_ok, f"lengths sizes={size.shape[0]} centres={cen.shape[0]} faces={fac.shape[0]} for N={n}")
        if not shp_ok:
            continue
        t = w.t[k]
        for c in ([ONE, Rat.const(2), t, n - 1, n]):
            v = size.at((c,))
            ok = is_zero(v - (f(ax, c) - f(ax, c - 1)))
            ob('G1', f"mesh.{cls}/axis={ax}/cellsize", ok, f"cellsize[{c}] = {fmt_rat(v)}")
        g0, g1 = size.at((ZERO,)), size.at((ONE,))
        ob('G1', f"mesh.{cls}/axis={ax}/ghostsize-low", is_zero(g0 - g1), f"cellsize[0] = {fmt_rat(g0)} vs cellsize[1] = {fmt_rat(g1)}")
        gN, gN1 = size.at((n,)), size.at((n + 1,))
        ob('G1', f"mesh.{cls}/axis={ax}/ghostsize-high", is_zero(gN - gN1), f"cellsize[N+1] = {fmt_rat(gN1)} vs cellsize[N] = {fmt_rat(gN)}")
        for p in (ZERO, ONE, t, n - 2, n - 1):
            v = cen.at((p,))
            ok = is_zero(v - (f(ax, p) + f(ax, p + 1)) / 2)
            ob('G1', f"mesh.{cls}/axis={ax}/cellcenters", ok, f"cellcenters[{p}] = {fmt_rat(v)}")
        for i in (ZERO, ONE, t, n - 1, n):
            v = fac.at((i,))
            ob('G1', f"mesh.{cls}/axis={ax}/facecenters", is_zero(v - f(ax, i)), f"facecenters[{i}] = {fmt_rat(v)}")
    if len(samples) < 1:
        samples.append(dict(rule='G1', cls=cls, cellsize_generic=fmt_rat(snap(cs.attrs['_x']).at((w.t[0],))), ghost=fmt_rat(snap(cs.attrs['_x']).at((ZERO,)))))
    # G1e the face-position form on exactly equispaced faces with an arbitrary origin (f[i] = X0 + i*h): an `all sizes equal`
    # shortcut in a constructor is taken here, and must still report the faces as given
    we = World(sm, cls, uniform='faces')
    me = we.mesh
    for k in range(d):
        ax = AX[k]
        n = we.N[k]
        x0, h = Rat.atom(('X0', ax)), Rat.atom(('h', ax))
        size = snap(me.attrs['cellsize'].attrs['_' + ax])
        cen = snap(me.attrs['cellcenters'].attrs['_' + ax])
        fac = snap(me.attrs['facecenters'].attrs['_' + ax])
        t = we.t[k]
        shp_ok = is_zero(size.shape[0] - (n + 2)) and is_zero(cen.shape[0] - n) and is_zero(fac.shape[0] - (n + 1))
        ob('G1', f"mesh.{cls}/axis={ax}/equispaced-faces/shapes", shp_ok, f"lengths sizes={size.shape[0]} centres={cen.shape[0]} faces={fac.shape[0]}")
        if not shp_ok:
            continue
        for c in (ZERO, ONE, t, n, n + 1):
            v = size.at((c,))
            ob('G1', f"mesh.{cls}/axis={ax}/equispaced-faces/cellsize", is_zero(v - h), f"faces X0 + i*h: cellsize[{c}] = {fmt_rat(v)}")
        for p in (ZERO, t, n - 1):
            v = cen.at((p,))
            ob('G1', f"mesh.{cls}/axis={ax}/equispaced-faces/cellcenters", is_zero(v - (x0 + p * h + h / 2)), f"faces X0 + i*h: cellcenters[{p}] = {fmt_rat(v)}")
        for i in (ZERO, t, n):
            v = fac.at((i,))
            ob('G1', f"mesh.{cls}/axis={ax}/equispaced-faces/facecenters", is_zero(v - (x0 + i * h)), f"faces X0 + i*h: facecenters[{i}] = {fmt_rat(v)}")
    # G2 uniform form
    wu = World(sm, cls, uniform=True)
    mu = wu.mesh
    for k in range(d):
        ax = AX[k]
        n = wu.N[k]
        L = Rat.atom(('L', ax))
        h = L / n
        size = snap(mu.attrs['cellsize'].attrs['_' + ax])
        cen = snap(mu.attrs['cellcenters'].attrs['_' + ax])
        fac = snap(mu.attrs['facecenters'].attrs['_' + ax])
        t = wu.t[k]
        shp_ok = is_zero(size.shape[0] - (n + 2)) and is_zero(cen.shape[0] - n) and is_zero(fac.shape[0] - (n + 1))
        ob('G2', f"mesh.{cls}/axis={ax}/shapes", shp_ok, f"lengths sizes={size.shape[0]} centres={cen.shape[0]} faces={fac.shape[0]}")
        if not shp_ok:
            continue
        for c in (ZERO, ONE, t, n, n + 1):
            v = size.at((c,))
            ob('G2', f"mesh.{cls}/axis={ax}/cellsize", is_zero(v - h), f"(N,L) form cellsize[{c}] = {fmt_rat(v)}")
        for p in (ZERO, t, n - 1):
            v = cen.at((p,))
            ob('G2', f"mesh.{cls}/axis={ax}/cellcenters", is_zero(v - (p * h + h / 2)), f"(N,L) form cellcenters[{p}] = {fmt_rat(v)}")
        for i in (ZERO, t, n):
            v = fac.at((i,))
            ob('G2', f"mesh.{cls}/axis={ax}/facecenters", is_zero(v - i * h), f"(N,L) form facecenters[{i}] = {fmt_rat(v)}")
    dimsu = snap(mu.attrs['dims'])
    ob('G2', f"mesh.{cls}/dims", all(is_zero(dimsu.at((Rat.const(k),)) - wu.N[k]) for k in range(d)), "dims of the (N,L) form")
    # G3 / G4 volumes
    vol = w.volume()
    shape_ok = vol.ndim == d and all(is_zero(s - n) for s, n in zip(vol.shape, w.N))
    ob('G3', f"mesh.{cls}._getCellVolumes/shape", shape_ok, f"shape {tuple(map(str, vol.shape))}")
    if shape_ok:
        for P in F.cell_classes(w, tier, mode='axes'):
            v = w.vol_at(P)
            e = expected_volume(cls, P)
            ok = is_zero(v - e)
            cons = f"mesh.{cls}._getCellVolumes"
            if not ok and cls == 'SphericalGrid3D':
                pi = Rat.atom(('pi',))
                frac = Rat.const(4) / 3 * pi * (f('x', P[0]) ** 3 - f('x', P[0] - 1) ** 3) * ((f('y', P[1]) - f('y', P[1] - 1)) / pi) * ((f('z', P[2]) - f('z', P[2] - 1)) / (2 * pi))
                if is_zero(v - frac):
                    cons += '[theta-weighted-by-dtheta/pi]'
            ob('G3', cons, ok, f"cell {F.cstr(P)}: cellvolume = {fmt_rat(v)} ; geometric volume = {fmt_rat(e)}")
            s = w.sign_of(v)
            ob('G4', f"mesh.{cls}._getCellVolumes/positive", s == '+', f"cell {F.cstr(P)}: sign of cellvolume under the preconditions: {s}")
    # G5 labels
    for kind in ('cellsize', 'cellcenters', 'facecenters'):
        obj = mesh.attrs[kind]
        units.add('mesh.CellProp')
        for lab in ALL_LABELS:
            want = LABELS[cls].get(lab)
            try:
                got = w.interp.get_attr(obj, lab)
                if want is None:
                    ob('G5', f"mesh.CellProp.{lab}[{cls}]", False, f"{kind}.{lab} is readable on {cls} (label foreign to its coordinate system)")
                else:
                    same = got is obj.attrs[want]
                    ob('G5', f"mesh.CellProp.{lab}[{cls}]", same, f"{kind}.{lab} -> {'internal ' + want if same else 'a different array'}")
            except AbstractRaise as e:
                if want is None:
                    ob('G5', f"mesh.CellProp.{lab}[{cls}]", e.exc == 'AttributeError', f"{kind}.{lab} raises {e.exc}")
                else:
                    ob('G5', f"mesh.CellProp.{lab}[{cls}]", False, f"{kind}.{lab} raises {e.exc} although {lab} is a coordinate of {cls}")
    return dict(obs=obs, units=sorted(units), samples=samples, funcs=sorted(w.interp.funcs_seen))


def global_rules(sm, rep, tier):
    # docs table cross-check (weak oracle fallback recorded if the table is missing)
    import os, re
    from ..srcmodel import REPO
    path = os.path.join(REPO, 'docs', 'user_guide', 'meshes.md')
    if not os.path.exists(path):
        rep.notes.append('docs/user_guide/meshes.md missing: label oracle falls back to the table frozen in the checker')
        return
    txt = open(path, encoding='utf-8').read()
    rows = re.findall(r"^\|`(\w+)`\s*\|`?(\w*)`?\s*\|`?(\w*)`?\s*\|`?(\w*)`?\s*\|", txt, flags=re.M)
    seen = 0
    for (cls, a, b, c) in rows:
        if cls in LABELS and not a.endswith('value') and a:
            seen += 1
            doc = {lab: '_' + AX[k] for k, lab in enumerate((a, b, c)) if lab}
            rep.ob('G5', f"docs.meshes.md/{cls}", doc == LABELS[cls], f"documented labels {doc} vs checker table {LABELS[cls]}", 'docs/user_guide/meshes.md')
    rep.floor('documented label rows', seen, 9)


def finalize(sm, rep, tier, results):
    rep.floor('volume methods analysed', len({o['construct'].split('[')[0] for o in rep.obs if o['rule'] == 'G3' and '_getCellVolumes' in o['construct'] and '/shape' not in o['construct']}), 9)
    rep.floor('label obligations', sum(1 for o in rep.obs if o['rule'] == 'G5'), 9 * 6 * 3)
    from ..alg import Rat, is_zero
    a, b = Rat.atom(('f', 'x', Rat.const(0))), Rat.atom(('f', 'x', Rat.const(1)))
    rep.control('G3 distinguishes pi*(r2^2-r1^2) from (r2^2-r1^2)', not is_zero((b * b - a * a) * Rat.atom(('pi',)) - (b * b - a * a)))
