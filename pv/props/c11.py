"""C11 - cell-to-face means are true means of the two adjacent cells.

averaging.py is interpreted symbolically for all 9 grid classes; every face value (generic face and the
two boundary faces of every axis) is an exact expression in the adjacent cell atoms and cell sizes.

 W6  support: a face value mentions only the two cells adjacent along its axis
 W1  linearMean / arithmeticMean: the two weights sum to 1        W2  and are >= 0 (sign domain)
 WL  linearMean weights are (size_R, size_L)/(size_L+size_R): exact at the face for linear fields (W4: checked by
     substituting phi = alpha + beta*x_centre, ghost centres mirrored by the ghost-size fact)
 WA  arithmeticMean weights are (size_L, size_R)/(size_L+size_R)
 W3  geometric (exponent weights) and harmonic (weights of 1/phi) use the same weights as the arithmetic mean
     => weighted HM <= GM <= AM and all lie between the two values for positive data (theorem)
 W5  upwindMean: donor cell by the sign of u; on boundary faces the ghost-side donor is the face average
     (ghost+inner)/2; u == 0 -> plain average
 W9  a mean does not write the storage of its arguments (else a repeated evaluation returns other values; also C15.Z1)
 W8  totality on zeros: with either adjacent value 0 no denominator vanishes unless an explicit zero guard
     (indicator) has already selected the value 0
"""
from __future__ import annotations
import itertools
from ..alg import Rat, Poly, atom_id, atom_key, is_zero, fmt_rat, map_atoms, atoms_with_head, indicator_groups, _ATOM_ID
from ..srcmodel import SourceModel, AnalysisError, MESH_CLASSES
from ..arrays import AbstractRaise, R, ZERO, ONE, snap, opaque_fn
from ..model import World, AX
from .. import facts as F

PROP = 'C11'
RULES = {'W6': 'two-cell support', 'W1': 'weights sum to one', 'W2': 'weights non-negative', 'WL': 'linearMean weights / linear exactness',
         'WA': 'arithmeticMean weights', 'W3': 'geometric/harmonic use the arithmetic weights', 'W5': 'upwind donor selection',
         'W8': 'no 0/0 on data containing zeros', 'W9': 'arguments not written'}
ASSUMPTIONS = ['cell sizes positive (faces increasing)', 'weighted AM-GM-HM inequality and convexity give the between-ness and ordering from W1-W3',
               'np.exp/np.log are treated as exact inverse elementwise functions']
MEANS = ['linearMean', 'arithmeticMean', 'geometricMean', 'harmonicMean', 'upwindMean']


def jobs(tier):
    # second pass per class: cell values and face positions of integer dtype (legal inputs) - no face value may be truncated
    return [(c, tier) for c in MESH_CLASSES] + [(c, tier, 'int') for c in MESH_CLASSES]


def size(ax, c):
    return Rat.atom(('f', ax, R(c))) - Rat.atom(('f', ax, R(c) - 1))


def job(args):
    cls, tier = args[:2]
    dtype = args[2] if len(args) > 2 else 'real'
    sm = SourceModel()
    w = World(sm, cls, int_data=(dtype == 'int'))
    obs, samples, units = [], [], set()
    dtxt = ' [integer-dtype cell values and face positions]' if dtype == 'int' else ''

    def ob(rule, construct, ok, detail='', loc=''):
        obs.append(dict(rule=rule, construct=construct, ok=bool(ok), detail=(str(detail) + dtxt)[:1200], loc=loc, nontrivial=True))
    phi = w.cell_variable('phi')
    u = w.face_variable('u')
    d = w.dim
    res = {}
    for m in MEANS:
        fi = sm.func('averaging', m)
        units.add('averaging.' + m)
        w.ctx.events.clear()
        try:
            res[m] = (w.call('averaging', m, phi, u) if m == 'upwindMean' else w.call('averaging', m, phi), fi)
        except AbstractRaise as e:
            ob('W6', f"averaging.{m}[{d}D]", False, f"{cls}: raises {e.exc}: {e.msg}", fi.loc())
        muts = [e for e in w.ctx.events if e[0] == 'input-mutated']
        ob('W9', f"averaging.{m}[{d}D]", not muts, f"{cls}: writes into its argument's storage {muts[:2]} (a second evaluation sees other cell values)" if muts
           else f"{cls}: argument storage not written (the face values are a function of the cell field alone)", fi.loc())
    dimtag = f"{d}D"
    for m, (fv, fi) in res.items():
        loc = fi.loc()
        for a in range(d):
            comp = snap(fv.attrs['_' + AX[a] + 'value'])
            exp_shape = w.face_shape(a)
            if comp.ndim != d or any(not is_zero(s - e) for s, e in zip(comp.shape, exp_shape)):
                ob('W6', f"averaging.{m}[{dimtag}]/axis={AX[a]}", False, f"{cls}: component shape {tuple(map(str, comp.shape))} != face shape {tuple(map(str, exp_shape))}", loc)
                continue
            tcls = [F.transverse_classes(w, b, tier) if b != a else [None] for b in range(d)]
            for i in F.face_classes(w, a, 'quick'):
                for T in itertools.product(*tcls):
                    idx = tuple(i if k == a else T[k] - 1 for k in range(d))
                    L = tuple(i if k == a else T[k] for k in range(d))
                    H = tuple(i + 1 if k == a else T[k] for k in range(d))
                    v = comp.at(idx)
                    pL, pH = Rat.atom(('phi',) + L), Rat.atom(('phi',) + H)
                    aL, aH = atom_id(('phi',) + L), atom_id(('phi',) + H)
                    construct = f"averaging.{m}[{dimtag}]/axis={AX[a]}"
                    fdesc = f"{cls} face {AX[a]}={i} ({F.cstr(L)}|{F.cstr(H)})"
                    # W6 support
                    foreign = [k for (aid, k) in atoms_with_head(v, 'phi') if aid not in (aL, aH)]
                    ob('W6', construct, not foreign, f"{fdesc}: value mentions cells {foreign[:3]}" if foreign else fdesc, loc)
                    if foreign:
                        continue
                    sL, sH = size(AX[a], L[a]), size(AX[a], H[a])
                    # ghost sizes: cell 0 has the size of cell 1, cell N+1 the size of cell N
                    n = w.N[a]
                    if is_zero(R(L[a])):
                        sL = size(AX[a], ONE)
                    if is_zero(R(H[a]) - n - 1):
                        sH = size(AX[a], n)
                    if m in ('linearMean', 'arithmeticMean'):
                        try:
                            cL, rest = v.coeff_of(aL)
                            cH, rest2 = rest.coeff_of(aH)
                        except ValueError as e:
                            ob('W1', construct, False, f"{fdesc}: not linear in the cell values ({e})", loc)
                            continue
                        ob('W1', construct, is_zero(cL + cH - 1) and is_zero(rest2), f"{fdesc}: weights {fmt_rat(cL)} + {fmt_rat(cH)}, constant part {fmt_rat(rest2)}", loc)
                        s1, s2 = w.weak_sign_of(cL), w.weak_sign_of(cH)
                        ob('W2', construct, s1 in ('+', '>=0', '0') and s2 in ('+', '>=0', '0'), f"{fdesc}: signs of the weights {s1}, {s2}", loc)
                        if m == 'linearMean':
                            ok = is_zero(cL - sH / (sL + sH)) and is_zero(cH - sL / (sL + sH))
                            ob('WL', construct, ok, f"{fdesc}: weights ({fmt_rat(cL)}, {fmt_rat(cH)}) expected (size_R, size_L)/(size_L+size_R)", loc)
                        else:
                            ok = is_zero(cL - sL / (sL + sH)) and is_zero(cH - sH / (sL + sH))
                            ob('WA', construct, ok, f"{fdesc}: weights ({fmt_rat(cL)}, {fmt_rat(cH)}) expected (size_L, size_R)/(size_L+size_R)", loc)
                            if len(samples) < 2:
                                samples.append(dict(rule='WA', cls=cls, face=fdesc, weights=[fmt_rat(cL), fmt_rat(cH)]))
                    elif m == 'geometricMean':
                        ok, det = _geometric(v, pL, pH, sL, sH)
                        ob('W3', construct, ok, f"{fdesc}: {det}", loc)
                        ob('W8', construct, *_total_on_zeros(v, aL, aH, fdesc), loc)
                    elif m == 'harmonicMean':
                        guard = _strip_guard(v, aL, aH)
                        ok = is_zero(guard * (sL / pL + sH / pH) - (sL + sH))
                        ob('W3', construct, ok, f"{fdesc}: harmonic value {fmt_rat(guard, 8)} is not (sL+sR)/(sL/phiL+sR/phiR)" if not ok else fdesc, loc)
                        ob('W8', construct, *_total_on_zeros(v, aL, aH, fdesc), loc)
                    elif m == 'upwindMean':
                        ua = Rat.atom(('u', AX[a]) + idx)
                        okk, det = _upwind(w, v, ua, pL, pH, a, L, H)
                        ob('W5', construct, okk, f"{fdesc}: {det}", loc)
    return dict(obs=obs, units=sorted(units), samples=samples, funcs=sorted(w.interp.funcs_seen))


def _strip_guard(v, aL, aH):
    """value on the branch where both cell values are non-zero (indicator guards [phi==0] -> 0)"""
    mp = {}
    for a in v.atoms():
        k = atom_key(a)
        if isinstance(k, tuple) and k[0] == 'ind' and k[1] == '==0':
            mp[a] = Poly({})
    return v.subs(mp)


def _geometric(v, pL, pH, sL, sH):
    g = _strip_guard(v, None, None)
    # expect exp(E) with E = (sL*log(pL) + sH*log(pH))/(sL+sH)
    if len(g.fac) != 1 or g.coef != 1 or g.fac[0][1] != 1:
        return False, f"value {fmt_rat(g, 6)} is not a single exp(...)"
    at = list(g.atoms())
    if len(at) != 1:
        return False, "value is not a single exp(...)"
    k = atom_key(at[0])
    if not (isinstance(k, tuple) and k[0] == 'fn' and k[1] == 'exp'):
        return False, f"value {fmt_rat(g, 6)} is not exp(...)"
    E = k[2]
    expect = (sL * opaque_fn('log', pL) + sH * opaque_fn('log', pH)) / (sL + sH)
    ok = is_zero(E - expect)
    return ok, ('exponent ' + fmt_rat(E, 8) + ' differs from the size-weighted mean of the logs') if not ok else 'exp of the size-weighted mean of logs'


def _total_on_zeros(v, aL, aH, fdesc):
    """for each of the cases (phiL=0), (phiH=0), (both 0): either an indicator guard kills the numerator
    before the cell values are substituted, or no denominator factor vanishes"""
    cases = [({aL}, 'left value 0'), ({aH}, 'right value 0'), ({aL, aH}, 'both values 0')]
    for zeros, name in cases:
        # indicator atoms whose argument is one of the zero atoms are true (==0) ; others left symbolic
        mp = {}
        for a in v.atoms():
            k = atom_key(a)
            if isinstance(k, tuple) and k[0] == 'ind':
                arg = k[2]
                if isinstance(arg, Rat) and arg.is_poly() and len(arg.atoms()) == 1 and next(iter(arg.atoms())) in (aL, aH):
                    z = next(iter(arg.atoms())) in zeros
                    if k[1] == '==0':
                        mp[a] = Poly.const(1 if z else 0)
                    elif z:
                        mp[a] = Poly.const(0)
        num = v.num.subs(mp)
        if num.is_zero():
            continue           # guarded: value 0 selected before any division
        zmap = {a: Poly({}) for a in zeros}
        for (fpoly, e) in v.den:
            q = fpoly.subs(mp).subs(zmap)
            if q.is_zero():
                # log(0) / exp(-inf) are finite limits for the geometric mean; only algebraic 0 denominators count
                nz = num.subs(zmap)
                return False, f"{fdesc}: {name}: denominator {fmt_rat(Rat(fpoly), 6)} vanishes" + (" and the numerator too (0/0 = nan)" if nz.is_zero() else " (division by zero)")
    return True, fdesc


def _upwind(w, v, ua, pL, pH, a, L, H):
    """case analysis on the sign of the face velocity atom"""
    n = w.N[a]
    low_b = is_zero(R(L[a]))            # L is the low ghost
    high_b = is_zero(R(H[a]) - n - 1)   # H is the high ghost
    aid = next(iter(ua.atoms()))
    exp = {'>0': (pL + pH) / 2 if low_b else pL, '<0': (pL + pH) / 2 if high_b else pH, '==0': (pL + pH) / 2}
    for rel, e in exp.items():
        mp = {}
        for rr in ('>0', '<0', '==0'):
            i = _ATOM_ID.get(('ind', rr, ua))
            if i is not None:
                mp[i] = Poly.const(1 if rr == rel else 0)
        if rel == '==0':
            mp[aid] = Poly({})
        got = v.subs(mp)
        if indicator_groups(got.num):
            return False, f"case u{rel}: value still depends on other sign tests: {fmt_rat(got, 6)}"
        if not is_zero(got - e):
            return False, f"case u{rel}: value {fmt_rat(got, 6)} expected {fmt_rat(e, 6)}"
    return True, 'donor / boundary average / tie'


def finalize(sm, rep, tier, results):
    rep.floor('mean functions x dimensionalities', len({o['construct'].split('/')[0] for o in rep.obs}), 15)
    rep.floor('mean obligations', len(rep.obs), 1000)
    from ..alg import Rat, is_zero
    x, y = Rat.atom(('ctl', 'x')), Rat.atom(('ctl', 'y'))
    rep.control('weight-sum test fires on swapped neighbour sizes', not is_zero(x / (x + y) - y / (x + y)))
