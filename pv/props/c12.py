"""C12 - time stepping.

 T1  transientTerm(phi, dt, alpha): the interpreted constructor/operator chain (CellVariable(...), a/dt, a*phi/dt,
     linearSourceTerm, constantSourceTerm) yields, for every cell, a diagonal entry alpha_P/dt and a right-hand side
     alpha_P*phi_old,P/dt - for scalar alpha and for a CellVariable alpha, on all 9 classes; i.e. row P of
     (M, RHS) is exactly alpha_P*(phi_P - phi_old,P)/dt.  No off-diagonal entries, no ghost-row entries.
 T2  solveExplicitPDE(phi_old, dt, RHS), interpreted symbolically: the returned object is a new CellVariable whose
     interior values are old + dt*RHS (RHS a symbolic flat vector in C-order cell numbering) and whose ghost values
     are the boundary-condition formula applied to the new interior (same BC object).
 T3  the input variable's storage is not written on the clean path (no dirty flag set), and it is not the object returned.
 The fixed-point and dt->0 / dt->inf statements are corollaries of T1 with C04; O(dt^2) agreement is not decided.
"""
from __future__ import annotations
from ..alg import Rat, atom_id, atom_key, is_zero, fmt_rat
from ..srcmodel import SourceModel, AnalysisError, MESH_CLASSES
from ..arrays import AbstractRaise, R, ZERO, ONE, snap, Arr, Box, shape_prod
from ..model import World, AX, atom_array
from ..interp import ASparse, AObj
from .. import facts as F

PROP = 'C12'
from . import lemmas as _lemmas
LEMMAS = [_lemmas.PROTOCOL, _lemmas.SOLVE]
RULES = {'T1': 'transient row == alpha*(phi-phi_old)/dt', 'T2': 'explicit update == old + dt*RHS with boundary values re-imposed',
         'T3': 'solveExplicitPDE leaves its input untouched'}
ASSUMPTIONS = ['exact arithmetic', 'dt != 0', 'limits dt->0, dt->inf and the O(dt^2) agreement are not decided statically (corollaries / out of reach)']


def jobs(tier):
    out = [(c, tier) for c in MESH_CLASSES]
    if tier != 'quick':
        # thorough tier: concrete small grids (down to one cell per axis) with symbolic data
        from ..model import DIM as _DIM
        for c in MESH_CLASSES:
            for sz in F.QUICK_SMALL_SIZES[_DIM[c]]:
                out.append((c, tier, sz))
    return out


def flat_vector(w, name):
    total = shape_prod(w.full_shape())

    def fn(idx):
        raise AnalysisError("symbolic flat vector read by position")

    def maker(shape):
        if len(shape) != w.dim or any(not is_zero(s - e) for s, e in zip(shape, w.full_shape())):
            raise AbstractRaise('ValueError', f"cannot reshape array of size {total} into shape {tuple(map(str, shape))}")
        return atom_array((name,), shape)
    return Arr((total,), fn, 'real', label=('flatvec', maker))


def explicit_step(w, sm, cells, ob, dt, r2='T2', r3='T3'):
    """obligations on one symbolic call of solveExplicitPDE (shared with C01.R8)"""
    fe = sm.func('pdesolver', 'solveExplicitPDE')
    bc = w.boundary_conditions()
    old = w.cell_variable('phi', bc)
    w.ctx.events.clear()
    construct = f"pdesolver.solveExplicitPDE/{w.dim}D"
    try:
        rhs_in = Box(flat_vector(w, 'rhs'))
        rhs_in.frozen = 'rhs'
        new = w.call('pdesolver', 'solveExplicitPDE', old, dt, rhs_in)
    except AbstractRaise as e:
        ob(r2, construct, False, f"raises {e.exc}: {e.msg}", fe.loc())
        new = None
    if new is not None:
        isobj = isinstance(new, AObj) and new.cls == 'CellVariable'
        ob(r2, construct + '/result', isobj, f"returns {new!r}", fe.loc())
        if isobj:
            ob(r3, construct + '/identity', new is not old and new.attrs.get('_value') is not old.attrs.get('_value'),
               "returned variable and its value array are distinct from the input", fe.loc())
            val = snap(new.attrs['_value'])
            okshape = val.ndim == w.dim and all(is_zero(s - e) for s, e in zip(val.shape, w.full_shape()))
            ob(r2, construct + '/shape', okshape, f"value array shape {tuple(map(str, val.shape))}", fe.loc())
            if okshape:
                for P in cells:
                    v = val.at(P)
                    e = Rat.atom(('phi',) + tuple(P)) + dt * Rat.atom(('rhs',) + tuple(P))
                    ob(r2, construct + '/interior', is_zero(v - e), f"cell {F.cstr(P)}: {fmt_rat(v)}", fe.loc())
                # ghost = BC formula of the new interior : compare with cellValuesWithBoundaries applied to the expected interior
                interior = Box(Arr(tuple(w.N), lambda idx: Rat.atom(('phi',) + tuple(i + 1 for i in idx)) + dt * Rat.atom(('rhs',) + tuple(i + 1 for i in idx))))
                expect = snap(w.call('boundary', 'cellValuesWithBoundaries', interior, bc))
                for a in range(w.dim):
                    for g in (ZERO, w.N[a] + 1):
                        G = tuple(g if k == a else w.g[k] for k in range(w.dim))
                        ob(r2, construct + '/ghost', is_zero(val.at(G) - expect.at(G)), f"ghost {F.cstr(G)} = {fmt_rat(val.at(G), 6)}", fe.loc())
                ob(r2, construct + '/BCs', new.attrs.get('BCs') is bc, "the new variable carries the boundary conditions of the old one", fe.loc())
        muts = [e for e in w.ctx.events if e[0] == 'input-mutated' and (str(e[1]).startswith('phi') or str(e[1]) == 'rhs')]
        ob(r3, construct + '/input-storage', not muts, f"writes into the storage of its arguments (phi_old / the RHS vector the caller may reuse for the next step): {muts[:3]}" if muts
           else "no write into phi_old or RHS storage on the clean path", fe.loc())


def job(args):
    cls, tier = args[:2]
    sizes = args[2] if len(args) > 2 else None
    sm = SourceModel()
    w = World(sm, cls, sizes=sizes)
    obs, samples, units = [], [], set()

    def ob(rule, construct, ok, detail='', loc=''):
        obs.append(dict(rule=rule, construct=construct, ok=bool(ok), detail=(f"[{cls}] " + str(detail))[:1400], loc=loc, nontrivial=True))
    fi = sm.func('source', 'transientTerm')
    units.update({'source.transientTerm', 'source.linearSourceTerm', 'source.constantSourceTerm', 'cell.CellVariable.__init__',
                  'cell.CellVariable.__truediv__', 'cell.CellVariable.__mul__'})
    dt = Rat.atom(('dt',))
    cells = F.cell_classes(w, tier, mode='axes')
    for variant in ('scalar', 'field'):
        bc = w.boundary_conditions()
        phi = w.cell_variable('phi', bc)
        if variant == 'scalar':
            alpha = Rat.atom(('alpha',))
            def al(P):
                return Rat.atom(('alpha',))
        else:
            alpha = w.cell_variable('alphav')
            def al(P):
                return Rat.atom(('alphav',) + tuple(P))
        construct = f"source.transientTerm/alpha={variant}/{w.dim}D"
        try:
            res = w.call('source', 'transientTerm', phi, dt, alpha)
        except AbstractRaise as e:
            ob('T1', construct, False, f"raises {e.exc}: {e.msg}", fi.loc())
            continue
        if not (isinstance(res, tuple) and len(res) == 2 and isinstance(res[0], ASparse)):
            ob('T1', construct, False, f"does not return (matrix, vector): {res!r}", fi.loc())
            continue
        M, RHS = res
        for P in cells:
            row = F.row_by_col(w, w.matrix_row(M, P))
            kP = tuple(str(x) for x in P)
            dg = row.get(kP, (None, ZERO))[1]
            off = [k for k, (c, v) in row.items() if k != kP and not is_zero(v)]
            r = w.vector_at(RHS, P)
            ok = not off and is_zero(dg - al(P) / dt) and is_zero(r - al(P) * Rat.atom(('phi',) + tuple(P)) / dt)
            ob('T1', construct, ok, f"cell {F.cstr(P)}: diagonal {fmt_rat(dg)}, RHS {fmt_rat(r)}, off-diagonal {off}", fi.loc())
            if ok and len(samples) < 2:
                samples.append(dict(rule='T1', cls=cls, variant=variant, cell=F.cstr(P), diag=fmt_rat(dg), rhs=fmt_rat(r)))
        # ghost rows untouched
        G = tuple(ZERO if k == 0 else w.g[k] for k in range(w.dim))
        rg = w.matrix_row(M, G)
        vg = w.vector_at(RHS, G) if True else ZERO
        ob('T1', construct + '/ghost-rows', not rg and is_zero(vg), f"ghost cell {F.cstr(G)}: {len(rg)} matrix entries, RHS {fmt_rat(vg)}", fi.loc())
    units.add('pdesolver.solveExplicitPDE')
    units.add('cell.CellVariable.apply_BCs')
    explicit_step(w, sm, cells, ob, dt)
    return dict(obs=obs, units=sorted(units), samples=samples, funcs=sorted(w.interp.funcs_seen))


def finalize(sm, rep, tier, results):
    rep.floor('transient variants (scalar/field x 1D/2D/3D)', len({o['construct'] for o in rep.obs if o['rule'] == 'T1' and 'ghost' not in o['construct']}), 6)
    rep.floor('explicit-update obligations', sum(1 for o in rep.obs if o['rule'] == 'T2'), 60)
    from ..alg import Rat, is_zero
    a, p, dt = Rat.atom(('ctl', 'a')), Rat.atom(('ctl', 'p')), Rat.atom(('ctl', 'dt'))
    rep.control('T1 fires on a*phi*dt', not is_zero(a * p * dt - a * p / dt))
