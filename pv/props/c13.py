"""C13 - flux limiters compute the published formulas, are total and within TVD bounds.

utilities.fluxLimiter is parsed; the body of each of the 16 named branches and of the fallback is turned into an
exact piecewise-rational function of the gradient ratio r (pv.pw: Fraction coefficients, break points from
|r|, min/max, comparisons; Sturm sequences for root questions).  No limiter is ever evaluated numerically.

 F1  each named limiter equals the published closed form (reference table below, from the Wikipedia list the
     docstring cites: Sweby 1984, Roe 1986, van Leer 1974/77/79, van Albada 1982, Koren 1993, Gaskell-Lau 1988,
     Leonard 1988, Lien-Leschziner 1994, Waterson-Deconinck 1995, Zhou 1995, Chatkravathy-Osher 1983) on every piece
     and at every break point
 F2  totality: no denominator has a real root inside a piece, and every break-point value is finite
     (removable singularities need an eps guard that actually makes the denominator non-zero there)
 F3  only elementwise constructs: np.abs/np.minimum/np.maximum, arithmetic, comparisons (no Python min/max/if)
 F4  psi(1) == 1 exactly          F5  0 <= psi(r) <= min(2r, 4) for all r > 0 (piece-wise polynomial inequalities)
 F6  the limiters defined by clipping vanish identically for r <= 0
 F7  the fallback branch is the SUPERBEE function
 F8  TVD right-hand sides: every division whose divisor depends on the field goes through _fsign, and _fsign(x) is a
     total function of x that never returns 0 (its three cases partition the reals)
 F9  numerator and denominator degrees <= 3 (no overflow for |r| <= 1e100)
"""
from __future__ import annotations
import ast
from fractions import Fraction
from ..srcmodel import SourceModel, AnalysisError
from .. import pw as P
from ..pw import PW, RF, NAN, DivZero, F0, F1

PROP = 'C13'
RULES = {'F1': 'published closed form', 'F2': 'totality / guarded singularities', 'F3': 'elementwise constructs only', 'F4': 'psi(1)=1',
         'F5': '0<=psi<=min(2r,4) on r>0', 'F6': 'clip family zero for r<=0', 'F7': 'fallback == SUPERBEE', 'F8': '_fsign guards field-dependent divisors and never returns 0',
         'F9': 'degree <= 3'}
ASSUMPTIONS = ['eps = 2e-16 (the default) is used for the guard values; any positive eps gives the same verdicts',
               'floating-point overflow beyond |r| ~ 1e100 is not decided']
NAMES = ['CHARM', 'HCUS', 'HQUICK', 'ospre', 'VanLeer', 'VanAlbada1', 'VanAlbada2', 'MinMod', 'SUPERBEE', 'Sweby', 'Osher', 'Koren',
         'smart', 'MUSCL', 'QUICK', 'UMIST']
CLIP = ['MinMod', 'SUPERBEE', 'Osher', 'Sweby', 'Koren', 'MUSCL', 'QUICK', 'UMIST', 'smart', 'VanLeer']


def _c(x):
    return PW.const(Fraction(x))


def reference():
    r = PW.var()
    mx = lambda a, b: P.pw_select(a, b, max)
    mn = lambda a, b: P.pw_select(a, b, min)
    absr = P.pw_abs(r)
    pos = P.pw_compare(r, _c(0), '>')
    one = _c(1)
    ref = {}
    ref['CHARM'] = where_positive(P.pw_div(P.pw_mul(r, P.pw_add(P.pw_mul(_c(3), r), one)), P.pw_mul(P.pw_add(r, one), P.pw_add(r, one))))
    ref['HCUS'] = where_positive(P.pw_div(P.pw_mul(_c(3), r), P.pw_add(r, _c(2))))
    ref['HQUICK'] = where_positive(P.pw_div(P.pw_mul(_c(4), r), P.pw_add(r, _c(3))))
    ref['ospre'] = P.pw_div(P.pw_mul(_c('3/2'), P.pw_add(P.pw_mul(r, r), r)), P.pw_add(P.pw_add(P.pw_mul(r, r), r), one))
    ref['VanLeer'] = P.pw_div(P.pw_add(r, absr), P.pw_add(one, absr))
    ref['VanAlbada1'] = P.pw_div(P.pw_add(P.pw_mul(r, r), r), P.pw_add(P.pw_mul(r, r), one))
    ref['VanAlbada2'] = P.pw_div(P.pw_mul(_c(2), r), P.pw_add(P.pw_mul(r, r), one))
    ref['MinMod'] = mx(_c(0), mn(one, r))
    ref['SUPERBEE'] = mx(_c(0), mx(mn(P.pw_mul(_c(2), r), one), mn(r, _c(2))))
    beta = _c('3/2')
    ref['Osher'] = mx(_c(0), mn(r, beta))
    ref['Sweby'] = mx(_c(0), mx(mn(P.pw_mul(beta, r), one), mn(r, beta)))
    ref['Koren'] = mx(_c(0), mn(P.pw_mul(_c(2), r), mn(P.pw_div(P.pw_add(one, P.pw_mul(_c(2), r)), _c(3)), _c(2))))
    ref['smart'] = mx(_c(0), mn(P.pw_mul(_c(2), r), mn(P.pw_add(_c('1/4'), P.pw_mul(_c('3/4'), r)), _c(4))))
    ref['MUSCL'] = mx(_c(0), mn(P.pw_mul(_c(2), r), mn(P.pw_mul(_c('1/2'), P.pw_add(one, r)), _c(2))))
    ref['QUICK'] = mx(_c(0), mn(P.pw_mul(_c(2), r), mn(P.pw_div(P.pw_add(_c(3), r), _c(4)), _c(2))))
    ref['UMIST'] = mx(_c(0), mn(P.pw_mul(_c(2), r), mn(P.pw_add(_c('1/4'), P.pw_mul(_c('3/4'), r)), mn(P.pw_add(_c('3/4'), P.pw_mul(_c('1/4'), r)), _c(2)))))
    return ref


def pw_equal(a: PW, b: PW, ignore_points=()):
    brk = sorted(set(a.breaks) | set(b.breaks))
    ar, br = a.refine(brk), b.refine(brk)
    for (lo, hi, x), y in zip(ar.intervals(), br.pieces):
        if not x.equals(y):
            return False, f"on ({lo}, {hi}): code gives {_fmt(x)}, published form {_fmt(y)}"
    for bk, x, y in zip(brk, ar.points, br.points):
        if bk in ignore_points:
            continue
        if x != y:
            return False, f"at r = {bk}: code gives {x}, published form {y}"
    return True, ''


def _fmt(rf: RF):
    def poly(p):
        if not p:
            return '0'
        return ' + '.join(f"{c}*r^{i}" if i else f"{c}" for i, c in enumerate(p) if c != 0)
    return f"({poly(rf.n)})/({poly(rf.d)})" if P.pdeg(rf.d) > 0 else f"{poly(P.pscale(rf.n, 1 / rf.d[0]))}"


def extract_branches(sm):
    fi = sm.func('utilities', 'fluxLimiter')
    chain = None
    for st in fi.node.body:
        if isinstance(st, ast.If):
            chain = st
    if chain is None:
        raise AnalysisError("anchor vanished: if-chain of fluxLimiter")
    eps_default = None
    a = fi.node.args
    names = [x.arg for x in a.args]
    if 'eps' in names:
        d = a.defaults[len(a.defaults) - (len(names) - names.index('eps')):][0] if a.defaults else None
        if isinstance(d, ast.Constant):
            eps_default = Fraction(repr(d.value))
    if eps_default is None:
        raise AnalysisError("anchor vanished: eps default of fluxLimiter")
    branches = {}
    node = chain
    while True:
        t = node.test
        nm = None
        if isinstance(t, ast.Compare) and isinstance(t.left, ast.Name) and t.left.id == names[0] and len(t.ops) == 1 \
                and isinstance(t.ops[0], ast.Eq) and isinstance(t.comparators[0], ast.Constant):
            nm = t.comparators[0].value
        if nm is None:
            raise AnalysisError(f"unsupported test in fluxLimiter: {ast.unparse(t)}")
        branches[nm] = node.body
        if len(node.orelse) == 1 and isinstance(node.orelse[0], ast.If):
            node = node.orelse[0]
            continue
        branches['<fallback>'] = node.orelse
        break
    return fi, branches, eps_default


def limiter_body(body):
    """-> (param name, env constants, return expression node, def node)"""
    fdef = None
    for st in body:
        if isinstance(st, ast.FunctionDef):
            fdef = st
    if fdef is None:
        raise AnalysisError("limiter branch without a function definition")
    var = fdef.args.args[0].arg
    env = {}
    ret = None
    for st in fdef.body:
        if isinstance(st, ast.Assign) and len(st.targets) == 1 and isinstance(st.targets[0], ast.Name) and isinstance(st.value, ast.Constant):
            env[st.targets[0].id] = Fraction(repr(st.value.value))
        elif isinstance(st, ast.Return):
            ret = st.value
        elif isinstance(st, ast.Expr) and isinstance(st.value, ast.Constant):
            continue
        else:
            raise AnalysisError(f"statement {type(st).__name__} in a limiter body (line {st.lineno})")
    if ret is None:
        raise AnalysisError("limiter without return")
    return var, env, ret, fdef


ALLOWED_CALLS = {'abs', 'absolute', 'minimum', 'maximum'}


def local_helpers(fi):
    """helper functions defined directly in fluxLimiter's body (outside the if-chain) that consist of constant assignments and one
    return expression: a limiter may be written through such a helper (a shared kappa-scheme, say)"""
    out = {}
    for st in fi.node.body:
        if isinstance(st, ast.FunctionDef):
            out[st.name] = st
    return out


def inline_helpers(ret, helpers, depth=0):
    """replace every call of a local helper by its return expression with the arguments substituted (positional, keyword and
    default arguments; constant local assignments of the helper substituted as well)"""
    import copy as _copy
    if depth > 4:
        raise AnalysisError("local limiter helpers nested deeper than 4 calls")

    class Sub(ast.NodeTransformer):
        def __init__(self, mp):
            self.mp = mp

        def visit_Name(self, n):
            if isinstance(n.ctx, ast.Load) and n.id in self.mp:
                return _copy.deepcopy(self.mp[n.id])
            return n

    class Inl(ast.NodeTransformer):
        def visit_Call(self, n):
            self.generic_visit(n)
            if isinstance(n.func, ast.Name) and n.func.id in helpers:
                h = helpers[n.func.id]
                a = h.args
                if a.vararg or a.kwarg or a.kwonlyargs or a.posonlyargs:
                    raise AnalysisError(f"local helper {h.name}: only plain parameters are modelled")
                names = [x.arg for x in a.args]
                mp = {}
                for nm, d in zip(names[len(names) - len(a.defaults):], a.defaults):
                    mp[nm] = d
                for nm, v in zip(names, n.args):
                    mp[nm] = v
                for kw in n.keywords:
                    if kw.arg not in names:
                        raise AnalysisError(f"local helper {h.name}: unknown keyword {kw.arg}")
                    mp[kw.arg] = kw.value
                if set(mp) != set(names):
                    raise AnalysisError(f"local helper {h.name}: call does not bind every parameter")
                r = None
                for st in h.body:
                    if isinstance(st, ast.Expr) and isinstance(st.value, ast.Constant):
                        continue
                    if isinstance(st, ast.Assign) and len(st.targets) == 1 and isinstance(st.targets[0], ast.Name):
                        mp[st.targets[0].id] = Sub(dict(mp)).visit(_copy.deepcopy(st.value))
                        continue
                    if isinstance(st, ast.Return) and st.value is not None and r is None:
                        r = Sub(dict(mp)).visit(_copy.deepcopy(st.value))
                        continue
                    raise AnalysisError(f"local helper {h.name}: statement {type(st).__name__} is not modelled (line {st.lineno})")
                if r is None:
                    raise AnalysisError(f"local helper {h.name} has no return expression")
                return inline_helpers(r, helpers, depth + 1)
            return n
    out = Inl().visit(_copy.deepcopy(ret))
    ast.fix_missing_locations(out)
    return out


def elementwise_only(ret):
    bad = []
    for n in ast.walk(ret):
        if isinstance(n, ast.Call):
            ok = isinstance(n.func, ast.Attribute) and isinstance(n.func.value, ast.Name) and n.func.value.id in ('np', 'numpy') and n.func.attr in ALLOWED_CALLS
            if not ok:
                bad.append(ast.unparse(n.func))
        if isinstance(n, (ast.IfExp, ast.BoolOp)):
            bad.append(type(n).__name__)
    return bad


def check_bounds(f: PW):
    """0 <= f <= min(2r,4) on r>0 ; returns list of problems"""
    probs = []
    r = PW.var()
    upper = P.pw_select(P.pw_mul(_c(2), r), _c(4), min)
    for name, g in (('psi >= 0', f), ('psi <= min(2r,4)', P.pw_sub(upper, f))):
        gg = g.refine([F0])
        for lo, hi, piece in gg.intervals():
            if hi != 'inf' and hi <= 0:
                continue
            if not piece.n:
                continue
            # sign of numerator/denominator on the open piece
            if P.count_roots_open(piece.d, lo, hi) != 0:
                probs.append(f"{name}: denominator root inside ({lo},{hi})")
                continue
            nroots = P.count_roots_open(piece.n, lo, hi)
            s = P._sample(lo, hi)
            samples = [s]
            if nroots:
                # sign may change only at roots of odd multiplicity: test the square-free odd part
                g2 = P.pgcd(piece.n, P.pderiv(piece.n))
                sqf, _ = P.pdivmod(piece.n, g2) if P.pdeg(g2) > 0 else (piece.n, [])
                # roots of sqf in the interval: if any is of odd multiplicity in piece.n the sign changes -> violation.
                # conservative: isolate by bisection on rationals and compare signs on both sides
                probs.append(f"{name}: expression {_fmt(piece)} has {nroots} real root(s) inside ({lo},{hi}) - sign may change")
                continue
            v = piece.eval(s)
            if v < 0:
                probs.append(f"{name} violated on ({lo},{hi}), e.g. r={s}: {v}")
        for bk, v in zip(gg.breaks, gg.points):
            if bk > 0 and (v == NAN or v < 0):
                probs.append(f"{name} violated at r={bk}: {v}")
    return probs


def _target_names(t):
    if isinstance(t, ast.Name):
        return [t.id]
    if isinstance(t, (ast.Tuple, ast.List)):
        out = []
        for e in t.elts:
            out += _target_names(e)
        return out
    if isinstance(t, (ast.Subscript, ast.Attribute)):
        return _target_names(t.value)
    if isinstance(t, ast.Starred):
        return _target_names(t.value)
    return []


def where_positive(expr: PW):
    """expr for r > 0, 0 for r <= 0"""
    g = expr.refine([F0])
    pieces, points = [], []
    for lo, hi, p in g.intervals():
        pieces.append(RF.const(0) if (hi != 'inf' and hi <= 0) else p)
    for bk, v in zip(g.breaks, g.points):
        points.append(F0 if bk <= 0 else v)
    return PW(g.breaks, pieces, points).simplify()


def jobs(tier):
    return []


def global_rules(sm, rep, tier):
    fi, branches, eps = extract_branches(sm)
    helpers = local_helpers(fi)
    rep.unit('utilities.fluxLimiter')
    loc0 = fi.loc()
    ref = reference()
    found = [n for n in NAMES if n in branches]
    rep.floor('named limiter branches', len(found), 16)
    extra = [n for n in branches if n not in NAMES and n != '<fallback>']
    for n in extra:
        rep.notes.append(f"limiter {n!r} has no published reference in the checker table: only the generic rules F2-F5, F9 apply")
    pws = {}
    for name, body in branches.items():
        var, env, ret, fdef = limiter_body(body)
        loc = f"src/pyfvtool/utilities.py:{fdef.lineno}"
        env = dict(env)
        env['eps'] = eps
        cons = f"utilities.fluxLimiter[{name}]"
        ret = inline_helpers(ret, helpers)
        import builtins as _bi
        # a python builtin or a module function (min, max, math.fabs) is a known construct, judged by F3; only a call of a name
        # that is neither is not analysable
        unknown = [ast.unparse(n.func) for n in ast.walk(ret) if isinstance(n, ast.Call) and isinstance(n.func, ast.Name) and not hasattr(_bi, n.func.id)]
        if unknown:
            raise AnalysisError(f"fluxLimiter[{name}] calls {unknown[0]}, which is neither numpy nor a local helper of fluxLimiter: not analysable")
        bad = elementwise_only(ret)
        rep.ob('F3', cons, not bad, f"non-elementwise constructs: {bad}" if bad else "arithmetic, comparisons, np.abs/minimum/maximum only", loc)
        try:
            f = P.pw_from_ast(ret, env, var)
        except DivZero as e:
            rep.ob('F2', cons, False, str(e), loc)
            continue
        except AnalysisError as e:
            if bad:
                continue
            raise
        pws[name] = f
        # F2 totality
        probs = []
        for lo, hi, piece in f.intervals():
            if P.pdeg(piece.d) > 0 and P.count_roots_open(piece.d, lo, hi) != 0:
                # locate a rational root for the message if possible
                roots = [Fraction(-piece.d[0], piece.d[1])] if P.pdeg(piece.d) == 1 else []
                at = f" at r = {roots[0]}" if roots else ''
                val = ''
                if roots:
                    nv = P.peval(piece.n, roots[0])
                    val = ' (0/0 -> nan)' if nv == 0 else ' (division by zero -> inf)'
                probs.append(f"denominator {piece.d} vanishes inside ({lo}, {hi}){at}{val}")
        for bk, v in zip(f.breaks, f.points):
            if v == NAN:
                probs.append(f"value at the break point r = {bk} is not finite")
        rep.ob('F2', cons, not probs, '; '.join(probs) or f"{len(f.pieces)} pieces, all denominators root-free, {len(f.breaks)} break-point values finite", loc)
        # F9 degree
        deg = max(max(P.pdeg(p.n), P.pdeg(p.d)) for p in f.pieces)
        rep.ob('F9', cons, deg <= 3, f"maximal polynomial degree {deg}", loc)
        if probs:
            continue
        # F4
        v1 = f.at(1)
        rep.ob('F4', cons, v1 == 1, f"psi(1) = {v1}", loc)
        # F5
        pb = check_bounds(f)
        rep.ob('F5', cons, not pb, '; '.join(pb[:3]) or "0 <= psi <= min(2r,4) on every piece with r > 0", loc)
        # F6
        if name in CLIP or name == '<fallback>':
            g = f.refine([F0])
            nz = [f"({lo},{hi})" for lo, hi, p in g.intervals() if (hi != 'inf' and hi <= 0) and p.n]
            nzp = [str(bk) for bk, v in zip(g.breaks, g.points) if bk <= 0 and v != 0]
            rep.ob('F6', cons, not nz and not nzp, f"non-zero on {nz + nzp}" if (nz or nzp) else "identically zero for r <= 0", loc)
        # F1
        if name in ref:
            ok, why = pw_equal(f, ref[name])
            rep.ob('F1', cons, ok, why or "identical to the published form on every piece and break point", loc, sample=dict(rule='F1', limiter=name, pieces=[(str(lo), str(hi), _fmt(p)) for lo, hi, p in f.simplify().intervals()]) if name in ('Koren', 'CHARM') else None)
    # F7
    if '<fallback>' in pws and 'SUPERBEE' in ref:
        ok, why = pw_equal(pws['<fallback>'], ref['SUPERBEE'])
        rep.ob('F7', 'utilities.fluxLimiter[<fallback>]', ok, why or "fallback is the SUPERBEE function", loc0)
    else:
        rep.ob('F7', 'utilities.fluxLimiter[<fallback>]', False, "no analysable fallback branch", loc0)
    # F8 _fsign
    fs = sm.func('advection', '_fsign')
    rep.unit('advection._fsign')
    a = fs.node.args
    var = a.args[0].arg
    env = {}
    pnames = [x.arg for x in a.args]
    for nm, d in zip(pnames[len(a.args) - len(a.defaults):], a.defaults):
        if isinstance(d, ast.Constant):
            env[nm] = Fraction(int(d.value)) if isinstance(d.value, bool) else Fraction(repr(d.value))
    # every call site that passes more than the field (a threshold, a flag): the guard is analysed under that binding as well -
    # positional arguments land in the parameters in order, whatever the caller meant
    def _const_of(node, fnode):
        if isinstance(node, ast.Constant) and isinstance(node.value, (int, float, bool)):
            return Fraction(int(node.value)) if isinstance(node.value, bool) else Fraction(repr(node.value))
        if isinstance(node, ast.UnaryOp) and isinstance(node.op, ast.USub):
            v = _const_of(node.operand, fnode)
            return None if v is None else -v
        if isinstance(node, ast.Attribute) and node.attr in ('eps', 'tiny') and isinstance(node.value, ast.Call) and ast.unparse(node.value.func) in ('np.finfo', 'numpy.finfo'):
            return Fraction(1, 2 ** 52) if node.attr == 'eps' else Fraction(1, 2 ** 1022)
        if isinstance(node, ast.Name):
            defs = [x.value for x in ast.walk(fnode) if isinstance(x, ast.Assign) and len(x.targets) == 1 and isinstance(x.targets[0], ast.Name) and x.targets[0].id == node.id]
            if len(defs) == 1:
                return _const_of(defs[0], fnode)
        return None
    bindings = {(): ('default arguments', env)}
    for fname_, fnfi_ in sm.module('advection').functions.items():
        for c_ in ast.walk(fnfi_.node):
            if isinstance(c_, ast.Call) and isinstance(c_.func, ast.Name) and c_.func.id == '_fsign' and (len(c_.args) > 1 or c_.keywords):
                e2 = dict(env)
                desc = []
                for k_, arg in enumerate(c_.args[1:], start=1):
                    val = _const_of(arg, fnfi_.node)
                    if k_ >= len(pnames) or val is None:
                        raise AnalysisError(f"_fsign call at advection.py:{c_.lineno}: argument {ast.unparse(arg)} is not a resolvable constant")
                    e2[pnames[k_]] = val
                    desc.append(f"{pnames[k_]}={ast.unparse(arg)}")
                for kw in c_.keywords:
                    val = _const_of(kw.value, fnfi_.node)
                    if val is None or kw.arg not in pnames:
                        raise AnalysisError(f"_fsign call at advection.py:{c_.lineno}: keyword {kw.arg} is not a resolvable constant")
                    e2[kw.arg] = val
                    desc.append(f"{kw.arg}={ast.unparse(kw.value)}")
                bindings[tuple(sorted(e2.items()))] = (f"{fname_}: _fsign(.., {', '.join(desc)})", e2)
    for bkey, (bdesc, benv) in bindings.items():
        if bkey == ():
            continue
        try:
            gb = P.pw_from_ast(P.inlined_return(fs.node), benv, var)
        except (AnalysisError, DivZero) as e:
            raise AnalysisError(f"_fsign under the binding of {bdesc} is not analysable: {e}")
        zb = [f"({lo},{hi})" for lo, hi, p in gb.intervals() if not p.n or P.count_roots_open(p.n, lo, hi) != 0]
        zb += [f"x={bk}" for bk, v in zip(gb.breaks, gb.points) if v == NAN or v == 0]
        rep.ob('F8', f"advection._fsign/call-site[{bdesc.split(':')[0]}]", not zb,
               f"with the arguments of {bdesc} the guard returns 0 / is undefined on {zb}: the gradient ratio divides by it" if zb
               else f"with the arguments of {bdesc} the guard is total and non-zero", fs.loc())
    try:
        g = P.pw_from_ast(P.inlined_return(fs.node), env, var)
        zeros = []
        for lo, hi, p in g.intervals():
            if not p.n:
                zeros.append(f"({lo},{hi})")
            elif P.count_roots_open(p.n, lo, hi) != 0:
                zeros.append(f"root inside ({lo},{hi})")
        zeros += [f"x={bk}" for bk, v in zip(g.breaks, g.points) if v == NAN or v == 0]
        rep.ob('F8', 'advection._fsign', not zeros, f"_fsign(x) is zero / undefined on {zeros}" if zeros else f"_fsign is total and non-zero on all {len(g.pieces)} pieces and {len(g.breaks)} break points", fs.loc())
        # F8b: bounded away from zero - no piece may approach 0 at a finite end or at infinity (|_fsign(x)| >= m > 0 for all
        # x, so the gradient ratios stay within |numerator|/m; a guard for the exact zero only leaves ratios unbounded)
        small, cands = [], []
        for lo, hi, p in g.intervals():
            for end in (lo, hi):
                if end is None or end in (float('-inf'), float('inf')) or str(end) in ('-inf', 'inf'):
                    if P.pdeg(p.n) < P.pdeg(p.d):
                        small.append(f"tends to 0 towards {end}")
                    continue
                dv = P.peval(p.d, end)
                if dv == 0:
                    continue            # a pole: unbounded, not small
                v = P.peval(p.n, end) / dv
                cands.append(abs(v))
                if v == 0:
                    small.append(f"tends to 0 as x -> {end} within ({lo},{hi})")
        cands += [abs(v) for v in g.points if v != NAN]
        rep.ob('F8', 'advection._fsign/bounded-away-from-zero', not small and not zeros,
               f"_fsign is not bounded away from 0: {small}" if small else f"|_fsign(x)| > 0 uniformly (smallest end/break value {min(cands) if cands else '-'})", fs.loc())
        # identity outside the guard band
        big = g.at(5)
        rep.ob('F8', 'advection._fsign/identity', big == 5 and g.at(-5) == -5, f"_fsign(5)={big}, _fsign(-5)={g.at(-5)}", fs.loc())
    except (AnalysisError, DivZero) as e:
        raise AnalysisError(f"_fsign is not analysable as a piecewise rational function of its argument: {e}")
    # F8 divisions in the TVD builders
    mod = sm.module('advection')
    ntvd = 0
    for fname, fnfi in mod.functions.items():
        if not fname.startswith('convectionTvdRHS'):
            continue
        ntvd += 1
        rep.unit(f"advection.{fname}")
        params = [x.arg for x in fnfi.node.args.args]
        field = params[1] if len(params) > 1 else 'phi'
        tainted = {field}
        changed = True
        assigns = [n for n in ast.walk(fnfi.node) if isinstance(n, ast.Assign)]
        while changed:
            changed = False
            for asg in assigns:
                names = {n.id for n in ast.walk(asg.value) if isinstance(n, ast.Name)}
                if names & tainted:
                    for t in asg.targets:
                        for n in _target_names(t):
                            if n not in tainted:
                                tainted.add(n)
                                changed = True
        bad = []
        ndiv = 0
        for n in ast.walk(fnfi.node):
            if isinstance(n, ast.BinOp) and isinstance(n.op, ast.Div):
                dn = {x.id for x in ast.walk(n.right) if isinstance(x, ast.Name)}
                if dn & tainted:
                    ndiv += 1
                    guarded = isinstance(n.right, ast.Call) and isinstance(n.right.func, ast.Name) and n.right.func.id == '_fsign'
                    if not guarded:
                        bad.append(f"line {n.lineno}: / {ast.unparse(n.right)[:40]}")
        rep.ob('F8', f"advection.{fname}", not bad and ndiv >= 2, f"unguarded field-dependent divisors: {bad}" if bad else f"{ndiv} field-dependent divisors, all through _fsign", fnfi.loc())
    rep.floor('TVD builders', ntvd, 9)
    # positive controls
    try:
        bad = P.pw_from_ast(ast.parse("1.5*(r+np.abs(r))/(r+2.0)", mode='eval').body, {}, 'r')
        fired = any(P.pdeg(p.d) > 0 and P.count_roots_open(p.d, lo, hi) for lo, hi, p in bad.intervals())
    except DivZero:
        fired = True
    rep.control('F2 fires on an unguarded 0/0 at r=-2', fired)
    k2 = P.pw_from_ast(ast.parse("np.maximum(0.0, np.minimum(2.0*r, np.minimum((2.0+r)/3.0, 2.0)))", mode='eval').body, {}, 'r')
    rep.control('F1 fires on Koren with (2+r)/3', not pw_equal(k2, ref['Koren'])[0] and k2.at(1) == 1)
