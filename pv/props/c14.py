"""C14 - variable algebra is elementwise, side-effect free and yields independent objects.

Every operator method of CellVariable and FaceVariable, funceval/celleval/faceeval (arities 1..8) and copy()
are interpreted symbolically (operand kinds: variable, scalar, ndarray on the right) and compared with the
Python data model:

 O1  the result value at every interior cell / face is  op(self, other)  (reflected methods: op(other, self)) for the
     operator the data model prescribes for that method name
 O2  the CellVariable-branch and the scalar/array branch agree (same operator, same operand order)
 O3  no store into operand storage (effect events of the interpreter)
 O4  the result is a new object whose arrays and boundary-condition object share no storage with the operands
     (object-graph disjointness); a CellVariable result carries a deep copy of the boundary conditions of `self`
     (the left-most variable operand) and ghost values consistent with them; FaceVariable: all three components
 O5  funceval / faceeval pass args[k].value for k = 0..n-1 in order to every component
 O6  copy() reproduces all values (ghosts included) in fresh arrays with a deep copy of the boundary conditions
"""
from __future__ import annotations
import ast
from ..alg import atom_key, Rat, atom_id, is_zero, fmt_rat
from ..srcmodel import SourceModel, AnalysisError, MESH_CLASSES
from ..arrays import AbstractRaise, R, ZERO, ONE, snap, Arr, Box, View, compare_scalar, opaque_fn
from ..model import World, AX, DIM, atom_array, FACES
from ..interp import ASparse, AObj, OpaqueFn, explore_paths
from ..alg import reindex, atom_key, map_atoms
from ..npmodel import _to_bool01
from .. import facts as F

PROP = 'C14'
RULES = {'O1': 'operator semantics per data-model table', 'O2': 'variable branch == scalar branch', 'O3': 'operands not written',
         'O4': 'result independent of operands; BCs deep-copied from self; ghosts consistent', 'O5': 'funceval/faceeval argument wiring', 'O6': 'copy()'}
ASSUMPTIONS = ['oracle: the Python data model (a+b -> a.__add__(b), b+a -> a.__radd__(b), ...)', 'copy.deepcopy copies the whole object graph; np.copy / arithmetic return fresh arrays']

BIN = {'__add__': (ast.Add, False), '__radd__': (ast.Add, True), '__sub__': (ast.Sub, False), '__rsub__': (ast.Sub, True),
       '__mul__': (ast.Mult, False), '__rmul__': (ast.Mult, True), '__truediv__': (ast.Div, False), '__rtruediv__': (ast.Div, True),
       '__pow__': (ast.Pow, False), '__rpow__': (ast.Pow, True)}
CMP = {'__gt__': '>', '__ge__': '>=', '__lt__': '<', '__le__': '<='}
LOG = {'__and__': 'and', '__or__': 'or'}
UNARY = ['__neg__', '__abs__']
ALL_DUNDERS = list(BIN) + list(CMP) + list(LOG) + UNARY


def jobs(tier):
    classes = MESH_CLASSES if tier != 'quick' else ['Grid1D', 'CylindricalGrid2D', 'SphericalGrid3D', 'Grid2D', 'Grid3D']
    return [(c, tier) for c in classes]


def boxes_of(obj, skip=('domain',), seen=None, out=None):
    seen = set() if seen is None else seen
    out = {} if out is None else out
    if isinstance(obj, AObj):
        if obj.id in seen:
            return out
        seen.add(obj.id)
        out[('obj', obj.id)] = obj
        for k, v in obj.attrs.items():
            if k in skip:
                continue
            boxes_of(v, skip, seen, out)
    elif isinstance(obj, Box):
        out[('box', obj.id)] = obj
        sh = obj.attrs.get('shares')
        if sh is not None:
            boxes_of(sh, skip, seen, out)
    elif isinstance(obj, View):
        boxes_of(obj.base, skip, seen, out)
    elif isinstance(obj, (tuple, list)):
        for v in obj:
            boxes_of(v, skip, seen, out)
    return out


def expected(interp, name, x, y):
    """x = self value, y = other value (Rats)"""
    if name in BIN:
        op, refl = BIN[name]
        a, b = (y, x) if refl else (x, y)
        return interp.scalar_binop(op, a, b)
    if name in CMP:
        r = compare_scalar(interp.ctx, CMP[name], x, y)
        return Rat.const(1 if r else 0) if isinstance(r, bool) else r
    if name in LOG:
        bx, by = _to_bool01(x), _to_bool01(y)
        return bx * by if LOG[name] == 'and' else 1 - (1 - bx) * (1 - by)
    if name == '__neg__':
        return -x
    if name == '__abs__':
        return opaque_fn('abs', x)
    raise AnalysisError(name)


def operand_ghosts(w, ghost, bcs):
    """atom map: the ghost atom of operand `name` at cell `ghost` -> the boundary formula of that operand's interior"""
    cache = {}

    def fn(key):
        if isinstance(key, tuple) and key and key[0] in bcs and len(key) == 1 + len(ghost) \
                and all(is_zero(R(a) - b) for a, b in zip(key[1:], ghost)):
            nm = key[0]
            if nm not in cache:
                interior = Box(Arr(tuple(w.N), lambda idx, nm=nm: Rat.atom((nm,) + tuple(i + 1 for i in idx))))
                cache[nm] = snap(w.call('boundary', 'cellValuesWithBoundaries', interior, bcs[nm])).at(ghost)
            return cache[nm]
        return None
    return fn


def path_subst(log):
    """substitution implied by the path condition of a Fork log: a decided indicator is replaced by its truth value, an
    equality `x - c == 0` decided true (or a bare scalar decided falsy) fixes the atom x"""
    ind_map, fix, desc = {}, {}, []
    for cond, d, where in log:
        desc.append(f"{fmt_rat(cond, 3)} is {'true' if d else 'false'} @ {where.split(':')[1] if ':' in where else where}")
        zero_of = None
        for c, pos in ((cond, True), (1 - cond, False)):
            ats = list(c.atoms())
            if len(ats) == 1 and is_zero(c - Rat.atom(atom_key(ats[0]))):
                k = atom_key(ats[0])
                if isinstance(k, tuple) and k and k[0] == 'ind':
                    truth = d if pos else (not d)
                    ind_map[ats[0]] = Rat.const(1 if truth else 0)
                    if k[1] == '==0' and truth:
                        zero_of = k[2]
                    break
        else:
            if not d:
                zero_of = cond          # `if x:` decided falsy: x == 0
        if zero_of is not None:
            ats = list(zero_of.atoms())
            if len(ats) == 1:
                try:
                    c, r = zero_of.coeff_of(ats[0])
                    if c.is_const() and r.is_const() and not c.is_zero():
                        fix[ats[0]] = -r / c
                except ValueError:
                    pass

    def psub(r):
        if fix:
            r = reindex(r, fix)
        return r.subs(ind_map) if ind_map else r
    return psub, '; '.join(desc)


def bc_equal_but_distinct(w, b1, b2):
    if b1 is b2 or not isinstance(b2, AObj):
        return False, 'same object'
    for face in FACES:
        f1, f2 = b1.attrs[face], b2.attrs[face]
        if f1 is f2:
            return False, f'{face} face object shared'
        for c in ('_a', '_b', '_c'):
            x1, x2 = f1.attrs[c], f2.attrs[c]
            if x1 is x2:
                return False, f'{face}.{c} array shared'
            a1, a2 = snap(x1), snap(x2)
            if a1.ndim != a2.ndim:
                return False, f'{face}.{c} rank differs'
            if a1.shape and a1.shape[0].is_zero():
                continue
            idx = tuple(ZERO for _ in a1.shape)
            if not is_zero(a1.at(idx) - a2.at(idx)):
                return False, f'{face}.{c} content differs'
        if f1.attrs['_periodic'] != f2.attrs['_periodic']:
            return False, f'{face} periodic flag differs'
    return True, 'deep copy'


def job(args):
    cls, tier = args
    sm = SourceModel()
    w = World(sm, cls)
    d = w.dim
    obs, samples, units = [], [], set()

    def ob(rule, construct, ok, detail='', loc=''):
        obs.append(dict(rule=rule, construct=construct, ok=bool(ok), detail=(f"[{cls}] " + str(detail))[:1200], loc=loc, nontrivial=True))
    cells = [tuple(w.t), tuple(ONE for _ in range(d)), tuple(w.N)]
    ghost = tuple(ZERO if k == 0 else w.t[k] for k in range(d))
    # ------------------------------------------------ CellVariable
    ci = sm.cls('CellVariable')
    for name in ALL_DUNDERS:
        m = ci.methods.get(name)
        if m is None:
            raise AnalysisError(f"anchor vanished: CellVariable.{name}")
        units.add(f"cell.CellVariable.{name}")
        kinds = ['none'] if name in UNARY else ['variable', 'scalar', 'scalar=0', 'scalar=2', 'array']
        results = {}
        for kind in kinds:
            construct = f"cell.CellVariable.{name}"

            def run(fk, kind=kind):
                bcA, bcB = w.boundary_conditions(name='bcA'), w.boundary_conditions(name='bcB')
                A_, B_ = w.cell_variable('A', bcA), w.cell_variable('B', bcB)
                arr = None
                if kind == 'variable':
                    other = B_
                elif kind == 'scalar':
                    other = Rat.atom(('s',))
                elif kind.startswith('scalar='):
                    other = Rat.const(int(kind[7:]))
                elif kind == 'array':
                    arr = Box(atom_array(('arr',), w.N, offset=tuple(ONE for _ in w.N)))
                    arr.frozen = 'other-array'
                    other = arr
                else:
                    other = None
                w.ctx.events.clear()
                w.interp.fork = fk
                try:
                    res = w.interp.call_function(m, [A_] + ([other] if other is not None else []), self_obj=A_)
                except AbstractRaise as e:
                    res = e
                finally:
                    w.interp.fork = None
                return res, A_, B_, arr, bcA, other, [e for e in w.ctx.events if e[0] == 'input-mutated']

            def oth(P, kind=kind):
                if kind == 'variable':
                    return Rat.atom(('B',) + tuple(P))
                if kind == 'scalar':
                    return Rat.atom(('s',))
                if kind.startswith('scalar='):
                    return Rat.const(int(kind[7:]))
                if kind == 'array':
                    return Rat.atom(('arr',) + tuple(P))
                return None
            if kind.startswith('scalar='):
                try:
                    expected(w.interp, name, Rat.atom(('A',) + tuple(cells[0])), oth(cells[0]))
                except (AnalysisError, AbstractRaise, ZeroDivisionError):
                    continue            # the data model itself has no finite value for this operand (x/0, 0**x)
            paths = explore_paths(run) if kind == 'scalar' else [([], run(None))]
            for log, (res, A_, B_, arr, bcA, other, muts) in paths:
                psub, pdesc = path_subst(log)
                ktxt = f"operand kind {kind}" + (f" on the path [{pdesc}]" if log else '')
                if isinstance(res, AbstractRaise):
                    ob('O1', construct, False, f"{ktxt}: raises {res.exc}: {res.msg}", m.loc())
                    continue
                if not (isinstance(res, AObj) and res.cls == 'CellVariable'):
                    ob('O1', construct, False, f"{ktxt}: returns {res!r}", m.loc())
                    continue
                val = snap(res.attrs['_value'])
                okv = True
                det = ''
                for P in cells:
                    x = Rat.atom(('A',) + tuple(P))
                    e = expected(w.interp, name, x, oth(P) if other is not None else None)
                    g = val.at(P)
                    if not is_zero(psub(g - e)):
                        okv = False
                        det = f"cell {F.cstr(P)}: got {fmt_rat(g, 6)} expected {fmt_rat(e, 6)}"
                ob('O1', construct, okv, f"{ktxt}: {det or 'elementwise value as prescribed'}", m.loc())
                results[kind if not log else kind + '/' + pdesc] = okv
                if okv and len(samples) < 2 and name == '__rsub__':
                    samples.append(dict(rule='O1', method=name, kind=kind, value=fmt_rat(val.at(cells[0]))))
                ob('O3', construct, not muts, f"{ktxt}: writes into operand storage {muts[:2]}" if muts else f"{ktxt}: no operand written", m.loc())
                # independence
                rb = boxes_of(res)
                ob_ = boxes_of(A_)
                if kind == 'variable':
                    ob_.update(boxes_of(B_))
                if kind == 'array':
                    ob_.update(boxes_of(arr))
                shared = [k for k in rb if k in ob_]
                ob('O4', construct + '/independent', res is not A_ and res is not other and not shared,
                   f"{ktxt}: result shares {shared[:3]} with its operands" if shared else f"{ktxt}: disjoint object graphs", m.loc())
                okb, why = bc_equal_but_distinct(w, bcA, res.attrs.get('BCs'))
                ob('O4', construct + '/BCs', okb, f"{ktxt}: boundary conditions of the result vs those of self: {why}", m.loc())
                # ghost consistency
                interior = Box(Arr(tuple(w.N), lambda idx, val=val: val.at(tuple(i + 1 for i in idx))))
                try:
                    exp_g = snap(w.call('boundary', 'cellValuesWithBoundaries', interior, res.attrs['BCs']))
                    # the operands are themselves consistent variables: their ghost atoms stand for the boundary formula of
                    # their own interior (matters only when a result hands an operand's ghost value on unchanged)
                    got = map_atoms(val.at(ghost), operand_ghosts(w, ghost, {'A': bcA, 'B': B_.attrs['BCs']}))
                    ob('O4', construct + '/ghosts', is_zero(psub(got - exp_g.at(ghost))), f"{ktxt}: ghost value {fmt_rat(val.at(ghost), 5)}", m.loc())
                except AbstractRaise as e:
                    ob('O4', construct + '/ghosts', False, f"ghost recomputation raises {e.exc}", m.loc())
        if len(results) >= 2:
            ob('O2', f"cell.CellVariable.{name}", len(set(results.values())) == 1, f"branches agree with the table: {results}", m.loc())
    # copy
    mc = ci.methods.get('copy')
    if mc is None:
        raise AnalysisError("anchor vanished: CellVariable.copy")
    units.add('cell.CellVariable.copy')
    bcA = w.boundary_conditions(name='bcA')
    A_ = w.cell_variable('A', bcA)
    w.ctx.events.clear()
    cp = w.interp.call_function(mc, [A_], self_obj=A_)
    okc = isinstance(cp, AObj) and cp.cls == 'CellVariable' and cp is not A_
    ob('O6', 'cell.CellVariable.copy', okc, f"returns {cp!r}", mc.loc())
    if okc:
        val = snap(cp.attrs['_value'])
        same = all(is_zero(val.at(P) - Rat.atom(('A',) + tuple(P))) for P in cells + [ghost])
        ob('O6', 'cell.CellVariable.copy/values', same, "all values including ghosts reproduced" if same else "values differ", mc.loc())
        shared = [k for k in boxes_of(cp) if k in boxes_of(A_)]
        ob('O6', 'cell.CellVariable.copy/independent', not shared, f"shares {shared[:3]}" if shared else "fresh arrays and BC object", mc.loc())
        okb, why = bc_equal_but_distinct(w, bcA, cp.attrs.get('BCs'))
        ob('O6', 'cell.CellVariable.copy/BCs', okb, why, mc.loc())
        ob('O3', 'cell.CellVariable.copy', not [e for e in w.ctx.events if e[0] == 'input-mutated'], "no operand written", mc.loc())
        # a second copy of the same variable after its boundary conditions were edited: it must carry the *current* coefficients
        # in objects of its own, shared neither with the original nor with the first copy (state kept between calls - a
        # mutable default argument, a module-level memo - shows here)
        try:
            w.interp.set_attr(A_.attrs['BCs'].attrs['left'], 'c', Rat.atom(('edited-c',)), None)
            cp2 = w.interp.call_function(mc, [A_], self_obj=A_)
            ok2 = isinstance(cp2, AObj) and cp2 is not cp and cp2 is not A_
            b2 = cp2.attrs.get('BCs') if ok2 else None
            fresh = ok2 and b2 is not None and b2 is not cp.attrs.get('BCs') and b2 is not A_.attrs.get('BCs')
            cur = False
            if fresh:
                cv = snap(b2.attrs['left'].attrs['_c'])
                cur = any(isinstance(atom_key(a_), tuple) and atom_key(a_)[0] == 'edited-c' for a_ in cv.at(tuple(ZERO for _ in cv.shape)).atoms())
            sh2 = [k for k in boxes_of(cp2) if k in boxes_of(cp) or k in boxes_of(A_)] if ok2 else ['?']
            ob('O6', 'cell.CellVariable.copy/second-copy', bool(fresh and cur and not sh2),
               ("second copy after an edit: " + ("BC object shared with the original or the first copy; " if not fresh else '') +
                ("carries the coefficients from before the edit; " if fresh and not cur else '') + (f"shares storage {sh2[:3]}" if sh2 else ''))
               if not (fresh and cur and not sh2) else "a second copy after an edit is current and independent of the first", mc.loc())
        except AbstractRaise as e:
            ob('O6', 'cell.CellVariable.copy/second-copy', False, f"raises {e.exc}: {e.msg}", mc.loc())
    # funceval / celleval
    for fname in ('funceval', 'celleval'):
        ff = sm.func('cell', fname)
        units.add(f"cell.{fname}")
        for n in range(1, 9):
            vs = [w.cell_variable(f"V{k}", w.boundary_conditions(name=f"bc{k}")) for k in range(n)]
            try:
                res = w.interp.call_function(ff, [OpaqueFn('f')] + vs)
            except AbstractRaise as e:
                ob('O5', f"cell.{fname}/n={n}", False, f"raises {e.exc}", ff.loc())
                continue
            if not isinstance(res, AObj):
                ob('O5', f"cell.{fname}/n={n}", False, f"returns {res!r}", ff.loc())
                continue
            P = cells[0]
            xs = tuple(Rat.atom((f"V{k}",) + tuple(P)) for k in range(n))
            e = opaque_fn('f', xs[0]) if n == 1 else Rat.atom(('fnN', 'f') + xs)
            g = snap(res.attrs['_value']).at(P)
            okb, why = bc_equal_but_distinct(w, vs[0].attrs['BCs'], res.attrs.get('BCs'))
            ob('O5', f"cell.{fname}/n={n}", is_zero(g - e) and okb, f"value {fmt_rat(g, 4)} expected f(args in order); BCs: {why}", ff.loc())
    # ------------------------------------------------ FaceVariable
    cf = sm.cls('FaceVariable')
    comps = ['_' + AX[k] + 'value' for k in range(d)]
    for name in ALL_DUNDERS:
        m = cf.methods.get(name)
        if m is None:
            raise AnalysisError(f"anchor vanished: FaceVariable.{name}")
        units.add(f"face.FaceVariable.{name}")
        kinds = ['none'] if name in UNARY else ['variable', 'scalar', 'scalar=0', 'scalar=2']
        results = {}
        for kind in kinds:
            construct = f"face.FaceVariable.{name}"

            def yval(k, idx, kind=kind):
                if kind == 'variable':
                    return Rat.atom(('B', AX[k]) + idx)
                if kind == 'scalar':
                    return Rat.atom(('s',))
                if kind.startswith('scalar='):
                    return Rat.const(int(kind[7:]))
                return None

            def run(fk, kind=kind):
                A_, B_ = w.face_variable('A'), w.face_variable('B')
                other = B_ if kind == 'variable' else (yval(0, ()) if kind != 'none' else None)
                w.ctx.events.clear()
                w.interp.fork = fk
                try:
                    res = w.interp.call_function(m, [A_] + ([other] if other is not None else []), self_obj=A_)
                except AbstractRaise as e:
                    res = e
                finally:
                    w.interp.fork = None
                return res, A_, B_, other, [e for e in w.ctx.events if e[0] == 'input-mutated']
            if kind.startswith('scalar='):
                try:
                    expected(w.interp, name, Rat.atom(('A', 'x')), yval(0, ()))
                except (AnalysisError, AbstractRaise, ZeroDivisionError):
                    continue
            paths = explore_paths(run) if kind == 'scalar' else [([], run(None))]
            for log, (res, A_, B_, other, muts) in paths:
                psub, pdesc = path_subst(log)
                ktxt = f"operand kind {kind}" + (f" on the path [{pdesc}]" if log else '')
                if isinstance(res, AbstractRaise):
                    # empty (unused) components make some numpy operations fail only if evaluated; report
                    ob('O1', construct, False, f"{ktxt}: raises {res.exc}: {res.msg}", m.loc())
                    continue
                if not (isinstance(res, AObj) and res.cls == 'FaceVariable'):
                    ob('O1', construct, False, f"{ktxt}: returns {res!r}", m.loc())
                    continue
                okv, det = True, ''
                for k, cname in enumerate(comps):
                    comp = snap(res.attrs[cname])
                    idx = tuple(w.t[j] - (0 if j == k else 1) for j in range(d))
                    x = Rat.atom(('A', AX[k]) + idx)
                    e = expected(w.interp, name, x, yval(k, idx) if other is not None else None)
                    try:
                        g = comp.at(idx)
                    except (AnalysisError, AbstractRaise) as ex:
                        okv, det = False, f"component {cname}: {ex}"
                        continue
                    if not is_zero(psub(g - e)):
                        okv, det = False, f"component {cname}: got {fmt_rat(g, 6)} expected {fmt_rat(e, 6)}"
                ob('O1', construct, okv, f"{ktxt}: {det or 'all components as prescribed'}", m.loc())
                results[kind if not log else kind + '/' + pdesc] = okv
                ob('O3', construct, not muts, f"{ktxt}: writes into operand storage {muts[:2]}" if muts else f"{ktxt}: no operand written", m.loc())
                ob_ = boxes_of(A_)
                if kind == 'variable':
                    ob_.update(boxes_of(B_))
                shared = [k for k in boxes_of(res) if k in ob_]
                ob('O4', construct + '/independent', res is not A_ and res is not other and not shared,
                   f"{ktxt}: shares {shared[:3]} with operands" if shared else f"{ktxt}: disjoint", m.loc())
        if len(results) >= 2:
            ob('O2', f"face.FaceVariable.{name}", len(set(results.values())) == 1, f"branches agree with the table: {results}", m.loc())
    ff = sm.func('face', 'faceeval')
    units.add('face.faceeval')
    for n in range(1, 9):
        vs = [w.face_variable(f"V{k}") for k in range(n)]
        try:
            res = w.interp.call_function(ff, [OpaqueFn('f')] + vs)
            okv, det = isinstance(res, AObj), ''
            for k, cname in enumerate(comps):
                idx = tuple(w.t[j] - (0 if j == k else 1) for j in range(d))
                xs = tuple(Rat.atom((f"V{q}", AX[k]) + idx) for q in range(n))
                e = opaque_fn('f', xs[0]) if n == 1 else Rat.atom(('fnN', 'f') + xs)
                g = snap(res.attrs[cname]).at(idx)
                if not is_zero(g - e):
                    okv, det = False, f"{cname}: {fmt_rat(g, 4)}"
            ob('O5', f"face.faceeval/n={n}", okv, det or "f(args in order) on every component", ff.loc())
        except AbstractRaise as e:
            ob('O5', f"face.faceeval/n={n}", False, f"raises {e.exc}: {e.msg}", ff.loc())
    return dict(obs=obs, units=sorted(units), samples=samples)


def finalize(sm, rep, tier, results):
    rep.floor('CellVariable operator methods', len({o['construct'] for o in rep.obs if o['rule'] == 'O1' and o['construct'].startswith('cell.')}), 18)
    rep.floor('FaceVariable operator methods', len({o['construct'] for o in rep.obs if o['rule'] == 'O1' and o['construct'].startswith('face.')}), 18)
    rep.floor('funceval/faceeval arities', sum(1 for o in rep.obs if o['rule'] == 'O5'), 24)
    # positive controls: operand order matters to the oracle; the alias graph sees a shared array
    from ..arrays import Ctx, const_arr
    from ..interp import Interp
    it = Interp(sm, Ctx())
    x, y = Rat.atom(('ctl', 'x')), Rat.atom(('ctl', 'y'))
    rep.control('O1 oracle: __rsub__ is other - self, __sub__ is self - other', is_zero(expected(it, '__rsub__', x, y) - (y - x)) and is_zero(expected(it, '__sub__', x, y) - (x - y)) and not is_zero((y - x) - (x - y)))
    shared = Box(const_arr((Rat.const(2),), ZERO))
    o1, o2 = AObj('CellVariable', {'_value': shared}), AObj('CellVariable', {'_value': shared})
    rep.control('O4 alias graph reports a shared value array', any(k in boxes_of(o2) for k in boxes_of(o1) if k[0] == 'box'))
