"""C15 - assembly is pure and deterministic: builders never modify their inputs.

Effect analysis by abstract interpretation: every public builder / mean / gradient / divergence / boundary /
location function is interpreted for all 9 grid classes with all input storage (mesh arrays, coefficient and
solution variables, boundary-condition arrays, cached boundary terms) marked read-only; every store the
interpreter performs into such storage is an event.  Object-graph reachability decides aliasing.

 Z1  no builder stores into input storage (np.copy before masked writes in _upwind_min_max, upwindMean, ...)
 Z3  solveMatrixPDE and solveExplicitPDE store into nothing they are given (clean path)
 Z2  solvePDE writes only its solution variable: the cached boundary system and the terms are unwritten (C04.S1, re-run)
 Z4  no object returned by a builder contains (or is a view of) input storage
 Z5  [syntactic] builder modules use no randomness, clock, environment or module-level mutable state
"""
from __future__ import annotations
import ast
from ..alg import Rat, is_zero
from ..srcmodel import SourceModel, AnalysisError, MESH_CLASSES
from ..arrays import AbstractRaise, R, ZERO, ONE, snap, Arr, Box, View
from ..model import World, AX, DIM, atom_array
from ..interp import ASparse, AObj, OpaqueFn
from .. import facts as F
from .c14 import boxes_of
from .c12 import flat_vector

PROP = 'C15'
RULES = {'Z1': 'builders do not write their inputs', 'Z2': 'solvePDE writes only its solution variable', 'Z3': 'solveMatrixPDE / solveExplicitPDE write nothing given',
         'Z4': 'results do not alias input storage', 'Z5': 'no hidden state, randomness or clock in builder modules', 'Z6': 'a repeated call with the same arguments returns the same values'}
ASSUMPTIONS = ['numpy view rules of the interpreter: slicing/attribute access alias, arithmetic / np.copy / hstack / tile / csr_array are fresh',
               'bit-identical repetition follows from Z1, Z4, Z5 (pure functions of their inputs)']
BUILDER_MODULES = ['diffusion', 'advection', 'calculus', 'averaging', 'source', 'boundary', 'pdesolver', 'cell', 'face', 'mesh', 'utilities']
BANNED = {'random', 'time', 'datetime', 'secrets', 'uuid', 'os', 'numpy.random'}


def jobs(tier):
    out = [(c, tier) for c in MESH_CLASSES]
    if tier != 'quick':
        # thorough tier: concrete small grids (down to one cell per axis) with symbolic data
        from ..model import DIM as _DIM
        for c in MESH_CLASSES:
            if _DIM[c] == 1:
                continue        # the 1-D means are written as loops with a data-dependent branch: analysable only as symbolic map-loops
            for sz in F.QUICK_SMALL_SIZES[_DIM[c]]:
                out.append((c, tier, sz))
    return out


def frozen_in(obj):
    out = []
    for k, v in boxes_of(obj, skip=('domain',)).items():
        if k[0] == 'box' and getattr(v, 'frozen', None):
            out.append(v.frozen)
    return out


def job(args):
    cls, tier = args[:2]
    sizes = args[2] if len(args) > 2 else None
    sm = SourceModel()
    obs, samples, units = [], [], set()
    szt = f" sizes={sizes}" if sizes else ''

    def ob(rule, construct, ok, detail='', loc=''):
        obs.append(dict(rule=rule, construct=construct, ok=bool(ok), detail=(f"[{cls}{szt}] " + str(detail))[:1200], loc=loc, nontrivial=True))
    w = World(sm, cls, sizes=sizes)
    bc = w.boundary_conditions()
    phi = w.cell_variable('phi', bc)
    u, uu, D = w.face_variable('u'), w.face_variable('uu'), w.face_variable('D')
    FL = OpaqueFn('FL')
    dt = Rat.atom(('dt',))
    phi_int = Box(atom_array(('phi',), w.N, offset=tuple(ONE for _ in w.N)))
    phi_int.frozen = 'phi-interior-argument'
    calls = [
        ('diffusion', 'diffusionTerm', (D,)), ('advection', 'convectionTerm', (u,)), ('advection', 'convectionUpwindTerm', (u,)),
        ('advection', 'convectionUpwindTerm', (u, uu)), ('advection', 'convectionTVDupwindRHSTerm', (u, phi, FL)),
        ('advection', 'convectionTVDupwindRHSTerm', (u, phi, FL, uu)), ('calculus', 'divergenceTerm', (D,)), ('calculus', 'gradientTerm', (phi,)),
        ('calculus', 'gradientTermFixedBC', (phi,)),
        ('averaging', 'linearMean', (phi,)), ('averaging', 'arithmeticMean', (phi,)), ('averaging', 'geometricMean', (phi,)),
        ('averaging', 'harmonicMean', (phi,)), ('averaging', 'upwindMean', (phi, u)),
        ('source', 'linearSourceTerm', (phi,)), ('source', 'constantSourceTerm', (phi,)), ('source', 'transientTerm', (phi, dt, Rat.atom(('alpha',)))),
        ('source', 'transientTerm', (phi, dt, w.cell_variable('alphav'))),
        ('boundary', 'boundaryConditionsTerm', (bc,)), ('boundary', 'cellValuesWithBoundaries', (phi_int, bc)),
        ('cell', 'cellLocations', (w.mesh,)), ('face', 'faceLocations', (w.mesh,)),
    ]
    for module, fn, a in calls:
        # a violating builder must not poison the inputs of the next one: rebuild storage that was written
        if any(e[0] == 'input-mutated' for e in w.ctx.events):
            return _rest_with_fresh_world(sm, cls, tier, calls, module, fn, obs, units, ob, frozen_in)
        fi = sm.func(module, fn)
        units.add(f"{module}.{fn}")
        construct = f"{module}.{fn}" + ('/u_upwind' if (fn.startswith('convection') and len(a) in (2, 4) and a[-1] is uu) else '')
        w.ctx.events.clear()
        try:
            res = w.call(module, fn, *a)
        except AbstractRaise as e:
            ob('Z1', construct, False, f"raises {e.exc}: {e.msg}", fi.loc())
            continue
        muts = sorted({(str(e[1]), e[2], e[3]) for e in w.ctx.events if e[0] == 'input-mutated'})
        ob('Z1', construct, not muts, f"stores into input storage: {muts[:3]}" if muts else "no store into any input array", fi.loc())
        al = frozen_in(res)
        ob('Z4', construct, not al, f"the returned object holds input storage {al[:3]}" if al else "result holds no input storage", fi.loc())
        # Z6: a second call with the very same (unchanged) arguments returns the same values - state kept between calls
        # (a cache on the mesh written in place, a memo keyed by identity, a counter) shows as a difference
        if not muts:
            try:
                res2 = w.call(module, fn, *a)
                diff = _first_difference(w, res, res2)
                ob('Z6', construct, diff is None, f"a repeated call with the same arguments differs: {diff}" if diff else "a repeated call returns the same values", fi.loc())
            except AbstractRaise as e:
                ob('Z6', construct, False, f"the repeated call raises {e.exc}: {e.msg}", fi.loc())
            except AnalysisError as e:
                if 'read by position' not in str(e):
                    raise
    units.update(w.interp.funcs_seen)
    # Z1d: the same for a variable whose change-tracking flags are raised (value edited in place / boundary condition edited,
    # no solve yet): a builder is a function of the values it is given - it neither rebinds attributes of its argument nor
    # recomputes its ghost layer nor clears its flags
    wd = World(sm, cls, sizes=sizes)
    for fn_mod, fn, mk in [('calculus', 'gradientTerm', lambda p, v: (p,)), ('calculus', 'gradientTermFixedBC', lambda p, v: (p,)),
                           ('averaging', 'linearMean', lambda p, v: (p,)), ('averaging', 'arithmeticMean', lambda p, v: (p,)),
                           ('averaging', 'geometricMean', lambda p, v: (p,)), ('averaging', 'harmonicMean', lambda p, v: (p,)),
                           ('averaging', 'upwindMean', lambda p, v: (p, v)), ('advection', 'convectionTVDupwindRHSTerm', lambda p, v: (v, p, FL)),
                           ('source', 'linearSourceTerm', lambda p, v: (p,)), ('source', 'constantSourceTerm', lambda p, v: (p,)),
                           ('source', 'transientTerm', lambda p, v: (p, dt, Rat.atom(('alpha',))))]:
        fi = sm.func(fn_mod, fn)
        bcd = wd.boundary_conditions()
        pd = wd.cell_variable('phi', bcd)
        pd.attrs['_value'].attrs['_modified'] = True
        bcd.attrs['left'].attrs['_c'].attrs['_modified'] = True
        vd = wd.face_variable('u')
        wd.ctx.events.clear()
        n0 = len(wd.interp.oplog)
        construct = f"{fn_mod}.{fn}/dirty-argument"
        try:
            wd.call(fn_mod, fn, *mk(pd, vd))
        except AbstractRaise as e:
            ob('Z1', construct, False, f"raises {e.exc}: {e.msg}", fi.loc())
            continue
        muts = sorted({(str(e[1]), e[2], e[3]) for e in wd.ctx.events if e[0] == 'input-mutated'})
        rebinds = sorted({op[1] for op in wd.interp.oplog[n0:] if op[0] == 'write' and op[2] == pd.id})
        flags_kept = pd.attrs['_value'].attrs.get('_modified') is True and bcd.attrs['left'].attrs['_c'].attrs.get('_modified') is True
        ob('Z1', construct, not muts and not rebinds and flags_kept,
           f"argument with raised flags: stores {muts[:2]}, rebinds attributes {rebinds}, flags kept: {flags_kept}" if (muts or rebinds or not flags_kept)
           else "argument with raised flags is left exactly as given", fi.loc())
    # Z3
    from .c04 import make_solve_world
    ws, phis, T, rec = make_solve_world(sm, cls)
    fm = sm.func('pdesolver', 'solveMatrixPDE')
    T['R1'].frozen = 'RHS-argument'
    ws.ctx.events.clear()
    try:
        out = ws.call('pdesolver', 'solveMatrixPDE', ws.mesh, T['M1'], T['R1'], ws.ext)
        muts = [e for e in ws.ctx.events if e[0] == 'input-mutated']
        ob('Z3', 'pdesolver.solveMatrixPDE', not muts, f"stores into its arguments: {muts[:2]}" if muts else "no store into M, RHS or the mesh", fm.loc())
        ob('Z4', 'pdesolver.solveMatrixPDE', not frozen_in(out), "result holds no input storage", fm.loc())
    except AbstractRaise as e:
        ob('Z3', 'pdesolver.solveMatrixPDE', False, f"raises {e.exc}", fm.loc())
    fe = sm.func('pdesolver', 'solveExplicitPDE')
    ws.ctx.events.clear()
    rhs = Box(flat_vector(ws, 'rhs'))
    rhs.frozen = 'RHS-argument'
    try:
        new = ws.call('pdesolver', 'solveExplicitPDE', phis, dt, rhs)
        muts = [e for e in ws.ctx.events if e[0] == 'input-mutated']
        ob('Z3', 'pdesolver.solveExplicitPDE', not muts, f"stores into its arguments: {muts[:2]}" if muts else "no store into phi_old, RHS or the mesh", fe.loc())
        held = [x for x in frozen_in(new) if not x.startswith('bc.')]
        ob('Z4', 'pdesolver.solveExplicitPDE', not held, f"result holds {held[:3]}" if held else "result holds no value storage of its input (the BC object is shared by design, see C09.P7)", fe.loc())
    except AbstractRaise as e:
        ob('Z3', 'pdesolver.solveExplicitPDE', False, f"raises {e.exc}", fe.loc())
    # Z2
    fs = sm.func('pdesolver', 'solvePDE')
    ws, phis, T, rec = make_solve_world(sm, cls)
    ws.ctx.events.clear()
    try:
        tl = [T['M1'], T['R1'], (T['M2'], T['R2'])]
        tl0 = list(tl)
        ws.interp.frozen_lists = {id(tl): 'eqnterms (the caller\'s list)'}
        ws.call('pdesolver', 'solvePDE', phis, tl, ws.ext)
        # everything owned by the solution variable (its values, its cached boundary system) is the variable solvePDE may modify
        muts = [e for e in ws.ctx.events if e[0] == 'input-mutated' and not str(e[1]).startswith('phi.')]
        same = len(tl) == len(tl0) and all(x is y for x, y in zip(tl, tl0))
        ob('Z2', 'pdesolver.solvePDE', not muts and same, (f"stores outside the solution variable: {muts[:3]}" if muts else f"the caller's term list changed: {len(tl0)} -> {len(tl)} entries") if (muts or not same) else "only the solution variable is written", fs.loc())
    except AbstractRaise as e:
        ob('Z2', 'pdesolver.solvePDE', False, f"raises {e.exc}", fs.loc())
    return dict(obs=obs, units=sorted(x for x in units if isinstance(x, str)), samples=samples)


def _first_difference(w, r1, r2):
    """compare two builder results at generic and first / last positions; returns a description of the first difference or None"""
    from ..alg import fmt_rat

    def cells():
        if w.symbolic:
            d = w.dim
            out = [tuple(w.t)]
            for a_ in range(d):
                out.append(tuple(ONE if k == a_ else w.t[k] for k in range(d)))
                out.append(tuple(w.N[a_] if k == a_ else w.t[k] for k in range(d)))
            return out
        return F.cell_classes(w, 'quick')
    if isinstance(r1, tuple) and isinstance(r2, tuple) and len(r1) == len(r2):
        for x, y in zip(r1, r2):
            d_ = _first_difference(w, x, y)
            if d_:
                return d_
        return None
    if isinstance(r1, ASparse) and isinstance(r2, ASparse):
        for P in cells():
            a1, a2 = F.row_by_col(w, w.matrix_row(r1, P)), F.row_by_col(w, w.matrix_row(r2, P))
            if set(a1) != set(a2):
                return f"matrix row {F.cstr(P)} has different columns"
            for k in a1:
                if not is_zero(a1[k][1] - a2[k][1]):
                    return f"matrix entry ({F.cstr(P)}, {k}): {fmt_rat(a1[k][1], 5)} vs {fmt_rat(a2[k][1], 5)}"
        return None
    if isinstance(r1, AObj) and isinstance(r2, AObj) and r1.cls == r2.cls:
        for k in sorted(r1.attrs):
            if k in ('domain', 'BCs'):
                continue
            v1, v2 = r1.attrs.get(k), r2.attrs.get(k)
            if isinstance(v1, (Box, View, Arr)) and isinstance(v2, (Box, View, Arr)):
                a1, a2 = snap(v1), snap(v2)
                if a1.ndim != a2.ndim:
                    return f"attribute {k}: rank {a1.ndim} vs {a2.ndim}"
                if a1.ndim == 0 or a1.size().is_zero():
                    continue
                idxs = []
                if w.symbolic and a1.ndim == w.dim:
                    idxs = [tuple(w.t[j] for j in range(a1.ndim)), tuple(ZERO for _ in range(a1.ndim))]
                elif a1.concrete_shape() is not None:
                    import itertools
                    idxs = [tuple(Rat.const(i) for i in ix) for ix in itertools.product(*[range(n) for n in a1.concrete_shape()])][:40]
                for ix in idxs:
                    try:
                        if not is_zero(a1.at(ix) - a2.at(ix)):
                            return f"{r1.cls}.{k}{[str(i) for i in ix]}: {fmt_rat(a1.at(ix), 5)} vs {fmt_rat(a2.at(ix), 5)}"
                    except (AnalysisError, AbstractRaise):
                        break
        return None
    if isinstance(r1, (Box, View, Arr)) and isinstance(r2, (Box, View, Arr)):
        a1, a2 = snap(r1), snap(r2)
        if a1.ndim == 1 and (a1.segs is not None or (a1.label and a1.label[0] == 'flatvec')):
            for P in cells():
                try:
                    if not is_zero(w.vector_at(r1, P) - w.vector_at(r2, P)):
                        return f"vector entry {F.cstr(P)}: {fmt_rat(w.vector_at(r1, P), 5)} vs {fmt_rat(w.vector_at(r2, P), 5)}"
                except (AnalysisError, AbstractRaise):
                    return None
            return None
        if a1.ndim == w.dim:
            for P in cells():
                try:
                    if not is_zero(a1.at(P) - a2.at(P)):
                        return f"entry {F.cstr(P)}: {fmt_rat(a1.at(P), 5)} vs {fmt_rat(a2.at(P), 5)}"
                except (AnalysisError, AbstractRaise):
                    return None
    return None


def global_rules(sm, rep, tier):
    for name in BUILDER_MODULES:
        m = sm.module(name)
        bad = []
        for local, tgt in m.imports.items():
            if tgt[0] == 'ext':
                root = tgt[1].split('.')[0]
                if root in BANNED or tgt[1].startswith('numpy.random'):
                    bad.append(f"import {tgt[1]}")
        for node in ast.walk(m.tree):
            if isinstance(node, (ast.Global, ast.Nonlocal)):
                bad.append(f"line {node.lineno}: {type(node).__name__.lower()} statement")
            if isinstance(node, ast.Attribute) and isinstance(node.value, ast.Attribute) and node.value.attr == 'random' \
                    and isinstance(node.value.value, ast.Name) and node.value.value.id == 'np':
                bad.append(f"line {node.lineno}: np.random")
        mutable_globals = [n for n, a in m.globals_assigned.items() if isinstance(a.value, (ast.List, ast.Dict, ast.Set)) and not n.startswith('__')]
        used = []
        MUTATORS = {'append', 'extend', 'insert', 'pop', 'remove', 'clear', 'update', 'setdefault', 'popitem', 'add', 'discard', 'sort', 'reverse', '__setitem__', '__delitem__'}
        fns = list(m.functions.values()) + [f_ for c_ in m.classes.values() for f_ in list(c_.methods.values()) + list(c_.getters.values()) + list(c_.setters.values())]
        for fn in fns:
            # a module-level list / dict / set that functions only *read* is a constant table (e.g. a dispatch dictionary);
            # it is hidden state when a function stores into it, calls a mutating method on it, deletes from it, or lets it
            # escape (passed as an argument / returned / aliased), after which it can be changed behind the analysis
            for node in ast.walk(fn.node):
                def is_g(x):
                    return isinstance(x, ast.Name) and x.id in mutable_globals
                if isinstance(node, (ast.Assign, ast.AugAssign, ast.Delete)):
                    tgts = node.targets if not isinstance(node, ast.AugAssign) else [node.target]
                    for t in tgts:
                        if isinstance(t, ast.Subscript) and is_g(t.value):
                            used.append(f"{fn.name} stores into module-level {t.value.id} (line {node.lineno})")
                        if is_g(t) and isinstance(node, ast.AugAssign):
                            used.append(f"{fn.name} updates module-level {t.id} in place (line {node.lineno})")
                if isinstance(node, ast.Assign) and is_g(node.value):
                    used.append(f"{fn.name} aliases module-level {node.value.id} (line {node.lineno})")
                if isinstance(node, ast.Call):
                    if isinstance(node.func, ast.Attribute) and is_g(node.func.value) and node.func.attr in MUTATORS:
                        used.append(f"{fn.name} calls {node.func.value.id}.{node.func.attr}() (line {node.lineno})")
                    for a_ in list(node.args) + [k.value for k in node.keywords]:
                        if is_g(a_) and not (isinstance(node.func, ast.Name) and node.func.id in ('len', 'isinstance', 'type', 'tuple', 'list', 'sorted', 'print', 'str', 'repr', 'dict', 'set', 'frozenset', 'enumerate', 'zip', 'iter', 'any', 'all')):
                            used.append(f"{fn.name} passes module-level {a_.id} to {ast.unparse(node.func)} (line {node.lineno})")
                if isinstance(node, ast.Return) and node.value is not None and is_g(node.value):
                    used.append(f"{fn.name} returns module-level {node.value.id} (line {node.lineno})")
        rep.unit(f"module {name}")
        rep.ob('Z5', f"module.{name}", not bad and not used, '; '.join((bad + used)[:4]) or "no randomness, clock, environment or mutable module state", f"src/pyfvtool/{name}.py:1")
    rep.floor('modules scanned', len(BUILDER_MODULES), 11)


def finalize(sm, rep, tier, results):
    rep.floor('builder calls analysed for effects (22 x 9)', sum(1 for o in rep.obs if o['rule'] == 'Z1'), 190)
    # positive controls: a store into read-only storage is an event - directly, through a slice view and through reshape
    from ..arrays import Ctx, const_arr, ZERO as _Z
    from ..interp import Interp
    from ..npmodel import call_method
    it = Interp(sm, Ctx())
    b = Box(const_arr((Rat.const(4),), _Z))
    b.frozen = 'ctl-input'
    it.events.clear()
    it.store_subscript(b, (Rat.const(1),), ONE, None)
    direct = any(e[0] == 'input-mutated' for e in it.events)
    it.events.clear()
    v = call_method(it, b, 'ravel', [], {}, None)
    it.store_subscript(v, (Rat.const(0),), ONE, None)
    through_view = any(e[0] == 'input-mutated' and e[1] == 'ctl-input' for e in it.events)
    rep.control('Z1 records a store into input storage, directly and through a ravel view', direct and through_view, f"direct={direct} view={through_view}")
    rep.samples.append(dict(rule='Z1', example="advection._upwind_min_max: ux_min = np.copy(u._xvalue); ux_min[mask] = 0  -> the store hits the copy; with the copy removed the interpreter records ('input-mutated', 'u._xvalue', ...)"))


def _rest_with_fresh_world(sm, cls, tier, calls, module, fn, obs, units, ob, frozen_in):
    """continue the Z1/Z4 loop from (module, fn) on, each call in a world of its own"""
    start = [i for i, (m_, f_, a_) in enumerate(calls) if (m_, f_) == (module, fn)][0]
    names = [(m_, f_, len(a_)) for (m_, f_, a_) in calls]
    for (m_, f_, n_) in names[start:]:
        w = World(sm, cls)
        bc = w.boundary_conditions()
        phi = w.cell_variable('phi', bc)
        u, uu, D = w.face_variable('u'), w.face_variable('uu'), w.face_variable('D')
        FL = OpaqueFn('FL')
        dt = Rat.atom(('dt',))
        phi_int = Box(atom_array(('phi',), w.N, offset=tuple(ONE for _ in w.N)))
        phi_int.frozen = 'phi-interior-argument'
        argmap = {('diffusionTerm', 1): (D,), ('convectionTerm', 1): (u,), ('convectionUpwindTerm', 1): (u,), ('convectionUpwindTerm', 2): (u, uu),
                  ('convectionTVDupwindRHSTerm', 3): (u, phi, FL), ('convectionTVDupwindRHSTerm', 4): (u, phi, FL, uu), ('divergenceTerm', 1): (D,),
                  ('gradientTerm', 1): (phi,), ('gradientTermFixedBC', 1): (phi,), ('linearMean', 1): (phi,), ('arithmeticMean', 1): (phi,),
                  ('geometricMean', 1): (phi,), ('harmonicMean', 1): (phi,), ('upwindMean', 2): (phi, u), ('linearSourceTerm', 1): (phi,),
                  ('constantSourceTerm', 1): (phi,), ('boundaryConditionsTerm', 1): (bc,), ('cellValuesWithBoundaries', 2): (phi_int, bc),
                  ('cellLocations', 1): (w.mesh,), ('faceLocations', 1): (w.mesh,)}
        if f_ == 'transientTerm':
            a = (phi, dt, Rat.atom(('alpha',)))
        else:
            a = argmap[(f_, n_)]
        fi = sm.func(m_, f_)
        units.add(f"{m_}.{f_}")
        construct = f"{m_}.{f_}" + ('/u_upwind' if (f_.startswith('convection') and n_ in (2, 4)) else '')
        try:
            res = w.call(m_, f_, *a)
        except AbstractRaise as e:
            ob('Z1', construct, False, f"raises {e.exc}: {e.msg}", fi.loc())
            continue
        muts = sorted({(str(e[1]), e[2], e[3]) for e in w.ctx.events if e[0] == 'input-mutated'})
        ob('Z1', construct, not muts, f"stores into input storage: {muts[:3]}" if muts else "no store into any input array", fi.loc())
        al = frozen_in(res)
        ob('Z4', construct, not al, f"the returned object holds input storage {al[:3]}" if al else "result holds no input storage", fi.loc())
    return dict(obs=obs, units=sorted(x for x in units if isinstance(x, str)), samples=[])
