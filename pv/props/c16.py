"""C16 - unsupported requests fail loudly with the documented error, valid ones never do.

Decided by partial evaluation of the syntax tree: the Python-level control flow (class tests, len(args),
periodic flags, shape tests) is evaluated concretely for each configuration while numeric data stay
symbolic; the outcome of a path is either a normal return or the exception class named by its `raise`
(or by the Python semantics of an unbound local / tuple index / missing attribute).

 L1  CellProp coordinate labels: 9 classes x 6 labels x 3 property objects (also C10.G5)
 L2  FaceVariable component labels: 9 classes x 6 labels x {get, set}: documented label -> the documented internal
     component (and only that one is written); any other label -> AttributeError, nothing written
 L3  radial periodic flags -> ValueError from boundaryConditionsTerm under every flag valuation; no exception
     for valuations without a radial periodic flag
 L4  CellVariable initial value: scalar, size-1 array, grid shape, grid+ghost shape accepted; other shapes -> ValueError
 L5  constructor arity 0..7: documented arities construct, all others -> TypeError
 L6  BoundaryFace with non-array coefficients -> TypeError
 L7  solvePDE: tuple / matrix / vector terms accepted; objects that are no equation term -> TypeError
 L8  every public dispatcher has a branch for each of the 9 grid classes
 L8f [sibling rule] every branch of a pure dispatcher forwards the same argument list (a dropped optional argument is a
     request silently ignored for that grid class)
 L9  "valid requests never fail": both constructor forms, the CellVariable constructor and every public builder are
     interpreted on meshes with one and with two cells per axis (concrete sizes) and must not raise
"""
from __future__ import annotations
import itertools
import ast
from ..alg import Rat, is_zero
from ..srcmodel import SourceModel, AnalysisError, MESH_CLASSES, dispatch_table, branch_callee
from ..arrays import AbstractRaise, R, ZERO, ONE, snap, Box, Arr, const_arr
from ..model import World, AX, DIM, RADIAL, atom_array, FACES
from ..interp import ASparse, AObj, OpaqueFn
from .. import facts as F
from .c10 import LABELS, ALL_LABELS

PROP = 'C16'
RULES = {'L1': 'CellProp labels', 'L2': 'FaceVariable component labels (get and set)', 'L3': 'radial periodic -> ValueError',
         'L4': 'initial value shapes', 'L5': 'constructor arity', 'L6': 'BoundaryFace coefficient types', 'L7': 'solvePDE term kinds',
         'L8': 'dispatcher coverage', 'L8f': 'dispatcher branches forward identical arguments', 'L9': 'documented forms and every public builder accepted on meshes with 1 and 2 cells per axis'}
ASSUMPTIONS = ['documented exception types: AttributeError (labels), ValueError (radial periodic, shapes), TypeError (arity, coefficient and term types) - from the docstrings, docs/user_guide and the property statement',
               '"accepted for every N >= 1" is decided for symbolic N (all N >= 14) and the concrete sizes used by L4']

FV_LABELS = {c: {k + 'value': '_' + v[1:] + 'value' for k, v in LABELS[c].items()} for c in LABELS}
ALL_FV = [l + 'value' for l in ALL_LABELS]
DISPATCHERS = [('diffusion', 'diffusionTerm'), ('advection', 'convectionTerm'), ('advection', 'convectionUpwindTerm'),
               ('advection', 'convectionTVDupwindRHSTerm'), ('calculus', 'divergenceTerm'), ('calculus', 'gradientTerm'),
               ('boundary', 'cellValuesWithBoundaries'), ('boundary', 'boundaryConditionsTerm')]
DOC_ARITY = {1: {1, 2, 6}, 2: {2, 4, 6}, 3: {3, 6}}


def jobs(tier):
    out = [('labels', c, tier) for c in MESH_CLASSES]
    out += [('arity', c, tier) for c in MESH_CLASSES]
    out += [('shapes', c, tier) for c in MESH_CLASSES]
    for c in MESH_CLASSES:
        d = DIM[c]
        faces = FACES[:2 * d]
        vals = []
        for r in range(0, len(faces) + 1):
            for sub in itertools.combinations(faces, r):
                vals.append(sub)
        if tier == 'quick':
            keep = [v for v in vals if len(v) <= 1 or v in (('left', 'right'), ('bottom', 'top'), ('back', 'front'), ('left', 'top'), ('right', 'front'))]
            vals = keep
        n = 4 if d == 3 else 1
        for k in range(n):
            chunk = vals[k::n]
            if chunk:
                out.append(('periodic', c, tier, tuple(chunk)))
    out.append(('misc', 'Grid2D', tier))
    for c in MESH_CLASSES:
        d = DIM[c]
        for n in (1, 2):
            out.append(('small', c, tier, (n,) * d))
        if d > 1:
            out.append(('small', c, tier, ((1, 2), (2, 1, 2))[d - 2]))       # one cell along some, not all, axes
    return out


def job(args):
    kind, cls, tier = args[0], args[1], args[2]
    sm = SourceModel()
    obs, samples, units = [], [], set()

    def ob(rule, construct, ok, detail='', loc=''):
        obs.append(dict(rule=rule, construct=construct, ok=bool(ok), detail=(f"[{cls}] " + str(detail))[:1200], loc=loc, nontrivial=True))
    if kind == 'labels':
        w = World(sm, cls)
        ci = sm.cls('FaceVariable')
        units.add('face.FaceVariable')
        for lab in ALL_FV:
            want = FV_LABELS[cls].get(lab)
            g = ci.getters.get(lab)
            s_ = ci.setters.get(lab)
            if g is None or s_ is None:
                raise AnalysisError(f"anchor vanished: FaceVariable.{lab} getter/setter")
            fv = w.face_variable('q')
            before = {k: fv.attrs[k] for k in ('_xvalue', '_yvalue', '_zvalue')}
            # get
            try:
                got = w.interp.get_attr(fv, lab)
                if want is None:
                    ob('L2', f"face.FaceVariable.{lab}.getter", False, f"readable although {lab} is foreign to {cls}", g.loc())
                else:
                    ob('L2', f"face.FaceVariable.{lab}.getter", got is before[want], f"returns {'internal ' + want if got is before[want] else 'another component'}", g.loc())
            except AbstractRaise as e:
                ob('L2', f"face.FaceVariable.{lab}.getter", want is None and e.exc == 'AttributeError',
                   f"raises {e.exc}" + ('' if want is None else f" although {lab} is a component of {cls}"), g.loc())
            # set
            newv = Box(const_arr((ONE,), ZERO))
            try:
                w.interp.set_attr(fv, lab, newv, None)
                changed = [k for k in before if fv.attrs[k] is not before[k]]
                if want is None:
                    ob('L2', f"face.FaceVariable.{lab}.setter", False, f"assignment accepted (writes {changed}) although {lab} is foreign to {cls}", s_.loc())
                else:
                    ob('L2', f"face.FaceVariable.{lab}.setter", changed == [want] and fv.attrs[want] is newv, f"writes {changed}, documented component {want}", s_.loc())
            except AbstractRaise as e:
                changed = [k for k in before if fv.attrs[k] is not before[k]]
                ob('L2', f"face.FaceVariable.{lab}.setter", want is None and e.exc == 'AttributeError' and not changed,
                   f"raises {e.exc}" + ('' if want is None else f" although {lab} is a component of {cls}"), s_.loc())
        # L1 through the same evaluation as C10.G5
        mesh = w.mesh
        for kindp in ('cellsize', 'cellcenters', 'facecenters'):
            obj = mesh.attrs[kindp]
            for lab in ALL_LABELS:
                want = LABELS[cls].get(lab)
                try:
                    got = w.interp.get_attr(obj, lab)
                    ob('L1', f"mesh.CellProp.{lab}", want is not None and got is obj.attrs[want], f"{kindp}.{lab} readable" + ('' if want else ' (foreign label)'), sm.cls('CellProp').loc())
                except AbstractRaise as e:
                    ob('L1', f"mesh.CellProp.{lab}", want is None and e.exc == 'AttributeError', f"{kindp}.{lab} raises {e.exc}", sm.cls('CellProp').loc())
        return dict(obs=obs, units=sorted(units), samples=samples)
    if kind == 'arity':
        d = DIM[cls]
        ci = sm.cls(cls)
        units.add(f"mesh.{cls}.__init__")
        for k in range(0, 8):
            for form in ('scalars', 'arrays'):
                w = World(sm, 'Grid1D')      # only for an interpreter + oracle; the class under test is built below
                w.ctx.size_symbol('x'), w.ctx.size_symbol('y'), w.ctx.size_symbol('z')
                if form == 'scalars':
                    a = [Rat.atom(('N', AX[i % 3])) if i < 3 else Rat.atom(('Larg', i)) for i in range(k)]
                else:
                    a = [Box(Arr((Rat.atom(('N', AX[i % 3])) + 1,), (lambda idx, i=i: Rat.atom(('farg', i, idx[0]))))) for i in range(k)]
                doc = k in DOC_ARITY[d]
                if doc and k == 6 and d < 3:
                    continue          # internal direct form (dims, cellsize, ...): not exercised
                if doc and ((form == 'arrays') != (k == d)):
                    continue          # (N.., L..) form wants scalars, face form wants arrays
                try:
                    w.interp.instantiate(cls, a)
                    ob('L5', f"mesh.{cls}.__init__/arity={k}", doc, f"{k} {form}: constructs" + ('' if doc else ' although the arity is undocumented'), ci.loc())
                except AbstractRaise as e:
                    ob('L5', f"mesh.{cls}.__init__/arity={k}", (not doc) and e.exc == 'TypeError', f"{k} {form}: raises {e.exc}: {e.msg[:80]}", ci.loc())
        return dict(obs=obs, units=sorted(units), samples=samples)
    if kind == 'shapes':
        d = DIM[cls]
        sizes = (3, 4, 5)[:d]
        w = World(sm, cls, sizes=sizes)
        ci = sm.cls('CellVariable')
        fi = ci.methods['__init__']
        units.add('cell.CellVariable.__init__')
        good = [tuple(sizes), tuple(s + 2 for s in sizes)]
        bad = [tuple(s + 1 for s in sizes), tuple(s + 3 for s in sizes), tuple(sizes) + (2,), (sizes[0] + 7,),
               tuple(sizes) + (1,), (1,) + tuple(sizes), tuple(s + 2 for s in sizes) + (1,)]      # singleton axes are a different shape
        if d >= 2:
            bad.append(tuple(reversed(sizes)))
            bad.append(tuple(sizes[:-1]))
            bad.append((sizes[0] + 2,) + tuple(sizes[1:]))
        for shp, want_ok in [(s, True) for s in good] + [(s, False) for s in bad]:
            val = Box(atom_array(('v',), tuple(Rat.const(x) for x in shp)))
            try:
                w.interp.instantiate('CellVariable', [w.mesh, val])
                ob('L4', 'cell.CellVariable.__init__/shape', want_ok, f"value of shape {shp} on a {sizes} mesh: accepted", fi.loc())
            except AbstractRaise as e:
                ob('L4', 'cell.CellVariable.__init__/shape', (not want_ok) and e.exc == 'ValueError', f"value of shape {shp} on a {sizes} mesh: raises {e.exc}", fi.loc())
        for scal, nm in ((Rat.atom(('s',)), 'python scalar'), (Box(atom_array(('v',), (ONE,))), 'size-1 array')):
            try:
                w.interp.instantiate('CellVariable', [w.mesh, scal])
                ob('L4', 'cell.CellVariable.__init__/scalar', True, f"{nm}: accepted", fi.loc())
            except AbstractRaise as e:
                ob('L4', 'cell.CellVariable.__init__/scalar', False, f"{nm}: raises {e.exc}", fi.loc())
        return dict(obs=obs, units=sorted(units), samples=samples)
    if kind == 'periodic':
        vals = args[3]
        w = World(sm, cls)
        ri, _p, _c, _l = F.implementer(sm, 'boundary', 'boundaryConditionsTerm', cls)
        rfi = sm.func('boundary', ri)
        units.add(f"boundary.{ri}")
        for per in vals:
            bc = w.boundary_conditions(periodic=set(per))
            radial = cls in RADIAL and (('left' in per) or ('right' in per))
            try:
                w.call('boundary', 'boundaryConditionsTerm', bc)
                ob('L3', f"boundary.{ri}/radial-periodic" if radial else f"boundary.{ri}/admissible-flags", not radial,
                   f"periodic flags {sorted(per)}: no exception" + (' although a radial face is periodic' if radial else ''), rfi.loc())
            except AbstractRaise as e:
                ob('L3', f"boundary.{ri}/radial-periodic" if radial else f"boundary.{ri}/admissible-flags", radial and e.exc == 'ValueError',
                   f"periodic flags {sorted(per)}: raises {e.exc}", rfi.loc())
        # L3t: the flag switched on through the public setter with a truthy value that is not the `True` singleton (what an
        # element of a numpy bool array, a comparison result or the integer 1 is): the refusal must not depend on identity
        if cls in RADIAL and vals and vals[0] == ():
            for face in ('left', 'right'):
                for tv, tn in ((Rat.const(1), 'the integer 1'), (True, 'True')):
                    bct = w.boundary_conditions()
                    try:
                        w.interp.set_attr(bct.attrs[face], 'periodic', tv, None)
                        w.call('boundary', 'boundaryConditionsTerm', bct)
                        ob('L3', f"boundary.{ri}/radial-periodic/setter", False, f"{face}.periodic = {tn}: no exception although a radial face is periodic", rfi.loc())
                    except AbstractRaise as e:
                        ob('L3', f"boundary.{ri}/radial-periodic/setter", e.exc == 'ValueError', f"{face}.periodic = {tn}: raises {e.exc}", rfi.loc())
        # L3r: the refusal is repeatable - an existing variable whose radial face is flagged periodic afterwards is refused by
        # every apply_BCs / solveExplicitPDE / solvePDE call, not only by the first one (the dirty flags are what route the
        # request to the check; they must survive the exception)
        if cls in RADIAL and vals and vals[0] == ():
            cvm = sm.cls('CellVariable').methods['apply_BCs']
            for entry in ('apply_BCs', 'solveExplicitPDE'):
                bcr = w.boundary_conditions()
                for f_ in FACES:
                    for c_ in ('_a', '_b', '_c'):
                        bcr.attrs[f_].attrs[c_].attrs['_modified'] = False
                pr = w.cell_variable('phi', bcr)
                pr.attrs['BCsTerm_precalc'] = True
                pr.attrs['_BCsTerm'] = w.call('boundary', 'boundaryConditionsTerm', bcr)
                pr.attrs['_value'].frozen = None
                w.interp.set_attr(bcr.attrs['left'], 'periodic', True, None)
                outcomes = []
                for attempt in (1, 2, 3):
                    try:
                        if entry == 'apply_BCs':
                            w.interp.call_function(cvm, [pr], self_obj=pr)
                        else:
                            from .c12 import flat_vector
                            w.call('pdesolver', 'solveExplicitPDE', pr, Rat.atom(('dt',)), Box(flat_vector(w, 'rhs')))
                        outcomes.append('returned')
                    except AbstractRaise as e:
                        outcomes.append(e.exc)
                ob('L3', f"cell.CellVariable.apply_BCs/radial-periodic/repeated[{entry}]", all(o == 'ValueError' for o in outcomes),
                   f"left face flagged periodic on an existing variable, three consecutive {entry} calls: {outcomes}", cvm.loc())
        return dict(obs=obs, units=sorted(units), samples=samples)
    if kind == 'small':
        sizes = args[3]
        ci = sm.cls(cls)
        for uniform in (False, True):
            form = '(N, L)' if uniform else 'face-array'
            try:
                w = World(sm, cls, sizes=sizes, uniform=uniform)
            except AbstractRaise as e:
                ob('L9', f"mesh.{cls}.__init__/N={sizes[0]}", False, f"{form} form with N={sizes} raises {e.exc}: {e.msg}", ci.loc())
                continue
            ob('L9', f"mesh.{cls}.__init__/N={sizes[0]}", True, f"{form} form with N={sizes} constructs", ci.loc())
            if uniform:
                continue
            bc = w.boundary_conditions()
            phi = w.cell_variable('phi', bc)
            u = w.face_variable('u')
            # the two documented array forms of the initial value (interior shape, interior+ghost shape)
            for shp, nm in ((tuple(w.N), 'interior-shaped'), (tuple(w.full_shape()), 'ghost-including')):
                try:
                    w.interp.instantiate('CellVariable', [w.mesh, Box(atom_array(('v',), shp))])
                    ob('L9', 'cell.CellVariable.__init__/small-grid', True, f"{nm} array accepted on a mesh with N={sizes}", ci.loc())
                except AbstractRaise as e:
                    ob('L9', 'cell.CellVariable.__init__/small-grid', False, f"{nm} array of shape {tuple(map(str, shp))} raises {e.exc}: {e.msg} on a mesh with N={sizes}", ci.loc())
            calls = [('cell', None, 'CellVariable(mesh, scalar)'), ('diffusion', 'diffusionTerm', (u,)), ('advection', 'convectionTerm', (u,)),
                     ('advection', 'convectionUpwindTerm', (u,)), ('advection', 'convectionTVDupwindRHSTerm', (u, phi, OpaqueFn('FL'))),
                     ('calculus', 'divergenceTerm', (u,)), ('calculus', 'gradientTerm', (phi,)), ('averaging', 'linearMean', (phi,)),
                     ('averaging', 'upwindMean', (phi, u)), ('source', 'linearSourceTerm', (phi,)), ('source', 'constantSourceTerm', (phi,)),
                     ('source', 'transientTerm', (phi, Rat.atom(('dt',)))), ('boundary', 'boundaryConditionsTerm', (bc,))]
            for module, fn, a in calls:
                try:
                    if fn is None:
                        w.interp.instantiate('CellVariable', [w.mesh, Rat.atom(('v0',))])
                        name = 'cell.CellVariable.__init__'
                    else:
                        w.call(module, fn, *a)
                        name = f"{module}.{fn}"
                    ob('L9', f"{name}/small-grid", True, f"accepted on a mesh with N={sizes}", ci.loc())
                except AbstractRaise as e:
                    ob('L9', f"{name if fn else 'cell.CellVariable.__init__'}/small-grid", False, f"raises {e.exc}: {e.msg} on a mesh with N={sizes}", ci.loc())
        return dict(obs=obs, units=sorted(units), samples=samples)
    if kind == 'misc':
        w = World(sm, cls)
        # L6
        ci = sm.cls('BoundaryFace')
        units.add('boundary.BoundaryFace.__init__')
        arr = lambda: Box(const_arr((Rat.const(3),), ONE))
        from ..interp import AForeign, NUMPY_SCALAR_ATTRS, MEMORYVIEW_ATTRS
        npscalar = lambda: AForeign('float64', NUMPY_SCALAR_ATTRS)
        sparse = lambda: w.call('source', 'linearSourceTerm', w.cell_variable('beta'))
        probes = [('floats', [Rat.const(1), Rat.const(0), Rat.const(0)]), ('list', [[Rat.const(1)], arr(), arr()]), ('None', [arr(), None, arr()]),
                  ('tuple', [arr(), arr(), (Rat.const(1),)]), ('str', ['1.0', arr(), arr()]), ('dict', [arr(), {}, arr()]),
                  ('CellVariable object', [arr(), arr(), w.cell_variable('cv')]), ('mesh object', [w.mesh, arr(), arr()])]
        # objects that are not arrays but carry array-like attributes (shape, ndim, dtype, size): numpy scalars (what arr[i] and
        # arr.sum() return), sparse matrices, memoryviews - in each coefficient position, and in all three
        for k in range(3):
            for nm, mk in (('numpy scalar', npscalar), ('sparse matrix', sparse), ('memoryview', lambda: AForeign('memoryview', MEMORYVIEW_ATTRS))):
                a3 = [arr(), arr(), arr()]
                a3[k] = mk()
                probes.append((f"{nm} as {'abc'[k]}", a3))
        probes.append(('numpy scalars (all three)', [npscalar(), npscalar(), npscalar()]))
        for nm, a3 in probes:
            try:
                w.interp.instantiate('BoundaryFace', a3)
                ob('L6', 'boundary.BoundaryFace.__init__', False, f"{nm} coefficients accepted", ci.loc())
            except AbstractRaise as e:
                ob('L6', 'boundary.BoundaryFace.__init__', e.exc == 'TypeError', f"{nm} coefficients: raises {e.exc}", ci.loc())
        try:
            w.interp.instantiate('BoundaryFace', [arr(), arr(), arr()])
            ob('L6', 'boundary.BoundaryFace.__init__', True, "ndarray coefficients accepted", ci.loc())
        except AbstractRaise as e:
            ob('L6', 'boundary.BoundaryFace.__init__', False, f"ndarray coefficients: raises {e.exc}", ci.loc())
        # L7
        fi = sm.func('pdesolver', 'solvePDE')
        units.add('pdesolver.solvePDE')
        from .c04 import make_solve_world
        for nm, term, want in (('None', None, 'TypeError'), ('str', 'term', 'TypeError'), ('dict', {}, 'TypeError'),
                               ('object', AObj('object'), 'TypeError'), ('function', OpaqueFn('f'), 'TypeError'),
                               ('3-tuple', 'T3', 'error'), ('(vector, matrix)', 'SWAP', 'TypeError'),
                               ('(matrix, matrix)', 'MM', 'TypeError'), ('(vector, vector)', 'RR', 'TypeError'),
                               ('python float', Rat.atom(('x',)), 'TypeError'), ('flat python list of numbers', 'LIST', 'TypeError'),
                               ('nested python list', 'LIST2', 'TypeError'), ('CellVariable object', 'CV', 'TypeError'),
                               ('numpy scalar', 'NPS', 'TypeError'), ('0-d array', 'ARR0', 'TypeError'), ('3-d array', 'ARR3', 'TypeError')):
            ws, phi, terms, hook = make_solve_world(sm, cls)
            if term == 'T3':
                term = (terms['M1'], terms['R1'], terms['R2'])
            elif term == 'SWAP':
                term = (terms['R1'], terms['M1'])
            elif term == 'MM':
                term = (terms['M1'], terms['M2'])
            elif term == 'RR':
                term = (terms['R1'], terms['R2'])
            elif term == 'LIST':
                term = [Rat.atom(('lst', k)) for k in range(3)]
            elif term == 'LIST2':
                term = [[Rat.atom(('lst', k, j)) for j in range(2)] for k in range(2)]
            elif term == 'CV':
                term = ws.cell_variable('cvterm')
            elif term == 'NPS':
                from ..interp import AForeign, NUMPY_SCALAR_ATTRS
                term = AForeign('float64', NUMPY_SCALAR_ATTRS)
            elif term == 'ARR0':
                term = Box(const_arr((), ONE))
            elif term == 'ARR3':
                term = Box(const_arr((Rat.const(2), Rat.const(2), Rat.const(2)), ONE))
            try:
                ws.call('pdesolver', 'solvePDE', phi, [terms['M1'], term], ws.ext)
                ob('L7', 'pdesolver.solvePDE/unknown-term', False, f"{nm}: accepted", fi.loc())
            except AbstractRaise as e:
                okk = (e.exc == want) or (want == 'error' and e.exc in ('TypeError', 'ValueError'))
                ob('L7', 'pdesolver.solvePDE/unknown-term', okk, f"{nm}: raises {e.exc}", fi.loc())
        ws, phi, terms, hook = make_solve_world(sm, cls)
        try:
            ws.call('pdesolver', 'solvePDE', phi, [terms['M1'], terms['R1'], (terms['M2'], terms['R2'])], ws.ext)
            ob('L7', 'pdesolver.solvePDE/term-kinds', True, "matrix, vector and (matrix, vector) terms accepted", fi.loc())
        except AbstractRaise as e:
            ob('L7', 'pdesolver.solvePDE/term-kinds', False, f"documented term kinds raise {e.exc}: {e.msg}", fi.loc())
        return dict(obs=obs, units=sorted(units), samples=samples)
    raise AnalysisError(kind)


def global_rules(sm, rep, tier):
    for module, disp in DISPATCHERS:
        fi = sm.func(module, disp)
        rep.unit(f"{module}.{disp}")
        import ast
        try:
            tab = dispatch_table(sm, fi)
        except AnalysisError as e:
            # not an if/elif chain of type tests (dictionary dispatch, helper, ...): decide coverage by interpreting the
            # dispatcher for each grid class; argument forwarding (L8f) is then decided by C05.E3u/E5u only
            rep.notes.append(f"{module}.{disp}: dispatch is not an if/elif chain of type tests ({str(e)[:120]}); coverage decided by interpretation per grid class")
            for c in MESH_CLASSES:
                exc, tr = F.dispatch_probe(sm, module, disp, c)
                me = f"{module}.{disp}"
                called = [t for t in (tr[tr.index(me) + 1:] if me in tr else tr) if t.startswith(module + '.') and t != me]
                rep.ob('L8', f"{module}.{disp}", exc is None and bool(called),
                       f"{c}: " + (f"handled by {called[0]} (interpreted)" if exc is None and called else f"raises {exc}" if exc else 'reaches no implementation of the module (returns without one)'), fi.loc())
                rep.ob('L8f', f"{module}.{disp}/argument-forwarding", True, f"{c}: dispatch form not syntactic; forwarding of optional arguments is decided by C05.E3u/E5u", fi.loc(), nontrivial=False)
            continue
        for c in MESH_CLASSES:
            body, line = tab[c]
            covered = bool(body) and not all(isinstance(st, ast.Raise) for st in body)
            rep.ob('L8', f"{module}.{disp}", covered, f"{c}: " + ('branch at line %s' % line if covered else 'no branch (falls through / raises)'), fi.loc())
        # L8f (sibling rule): a dispatcher whose branches are plain calls hands every implementation the same argument
        # list; an argument dropped for one grid class is a request silently ignored there
        sigs = {}
        for c in MESH_CLASSES:
            body, line = tab[c]
            try:
                callee, call, proj = branch_callee(body)
            except Exception:
                call = None
            if call is None:
                continue
            sig = ', '.join(ast.unparse(a_) for a_ in call.args) + ''.join(f", {k.arg}={ast.unparse(k.value)}" for k in call.keywords)
            sigs.setdefault(sig, []).append((c, line))
        if sigs and sum(len(v) for v in sigs.values()) == len(MESH_CLASSES):
            major = max(sigs, key=lambda k: len(sigs[k]))
            if len(sigs[major]) >= 7:            # a pure dispatcher (today: all nine branches identical)
                for sig, lst in sigs.items():
                    for c, line in lst:
                        rep.ob('L8f', f"{module}.{disp}/argument-forwarding", sig == major,
                               f"{c}: branch at line {line} passes ({sig})" + ('' if sig == major else f" while the other branches pass ({major})"), fi.loc())


def finalize(sm, rep, tier, results):
    rep.floor('FaceVariable label obligations (9x6x2)', sum(1 for o in rep.obs if o['rule'] == 'L2'), 108)
    rep.floor('arity obligations', sum(1 for o in rep.obs if o['rule'] == 'L5'), 9 * 8)
    rep.floor('radial-periodic valuations', sum(1 for o in rep.obs if o['rule'] == 'L3' and 'radial-periodic' in o['construct']), 18)
    rep.floor('dispatcher branches', sum(1 for o in rep.obs if o['rule'] == 'L8'), 72)
    rep.floor('pure-dispatcher branches with compared argument lists', sum(1 for o in rep.obs if o['rule'] == 'L8f'), 54)
    rep.samples.append(dict(rule='L2', example='FaceVariable.rvalue setter on Grid2D must raise AttributeError and leave _xvalue untouched'))
