"""C17 - results do not depend on the unit system (dimensional homogeneity) and terms are linear in their coefficient field.

Units domain over the *extracted* expressions: every atom gets the dimension of its physical role
(face positions L or 1 by the coordinate label of the class; D L^2/T; u L/T; beta 1/T; gamma K/T; dt T; alpha 1;
boundary a L, b 1, c K; phi K; a generic flux X), and every stencil coefficient, right-hand side, ghost value,
boundary row, mean, gradient, divergence and cell volume of every class must be

 H1  homogeneous (all monomials of every polynomial factor have one dimension; sin/cos/limiter arguments
     dimensionless; exponents literal)                      H5  limiter arguments dimensionless
 H2  of the dimension its role demands (matrix 1/T, RHS K/T, boundary rows 1 / K, ghost values K, gradient K/L,
     divergence X/L, means K, volumes L^n)
 H3  homogeneous of degree one in its coefficient field (every monomial of the numerator carries exactly one
     coefficient atom, none in a denominator): scaling and additivity of D, u, beta, gamma, F
 H4  [syntactic units check of advection._fsign] no literal threshold is added to or compared with a
     dimensional quantity
Rescaling inputs by their dimensions then rescales every matrix by 1/T and every RHS by K/T, hence the solution by K.
"""
from __future__ import annotations
import ast
from ..alg import Rat, atom_id, atom_key, is_zero, fmt_rat, atoms_with_head
from ..srcmodel import SourceModel, AnalysisError, MESH_CLASSES
from ..arrays import AbstractRaise, R, ZERO, ONE, snap, Box
from ..model import World, AX, DIM, atom_array
from ..interp import ASparse, OpaqueFn
from ..units import UnitSystem, Inhomogeneous, ZERO4, L, T, K, X, dadd, dscale, dfmt
from .. import facts as F
from .c10 import LABELS

PROP = 'C17'
from . import lemmas as _lemmas
LEMMAS = [_lemmas.PROTOCOL, _lemmas.SOLVE, _lemmas.INTBC]
RULES = {'H1': 'dimensional homogeneity of every extracted expression', 'H2': 'result dimension as demanded by the role', 'H3': 'degree one in the coefficient field',
         'H4': 'no literal threshold against dimensional quantities', 'H5': 'limiter arguments dimensionless',
         'H6': 'tolerance predicates met while building are scale-invariant (no absolute tolerance against a dimensional quantity)'}
ASSUMPTIONS = ['roles and dimensions from the README PDE and the property statement (DESIGN.md appendix B)',
               'the step from homogeneity of every coefficient to invariance of the solved values uses C04 (the solver solves the assembled system)']
LENGTH_LABELS = {'x', 'y', 'z', 'r'}
ROLES = {'D': (2, -1, 0, 0), 'u': (1, -1, 0, 0), 'uu': (1, -1, 0, 0), 'Fv': X, 'phi': K, 'beta': (0, -1, 0, 0), 'gamma': (0, -1, 1, 0),
         'dt': T, 'alpha': ZERO4, 'alphav': ZERO4, ('bc', 'a'): L, ('bc', 'b'): ZERO4, ('bc', 'c'): K, 'reduce': ZERO4}
INVT = (0, -1, 0, 0)
KT = (0, -1, 1, 0)


def jobs(tier):
    out = [(c, tier) for c in MESH_CLASSES]
    if tier != 'quick':
        # thorough tier: concrete small grids (down to one cell per axis) with symbolic data
        from ..model import DIM as _DIM
        for c in MESH_CLASSES:
            if _DIM[c] == 1:
                continue        # the 1-D means are written as loops with a data-dependent branch: analysable only as symbolic map-loops
            for sz in F.QUICK_SMALL_SIZES[_DIM[c]]:
                out.append((c, tier, sz))
    return out


def unit_system(cls):
    inv = {v: k for k, v in LABELS[cls].items()}
    axlen = {ax: (inv.get('_' + ax) in LENGTH_LABELS) for ax in AX}
    return UnitSystem(axlen, ROLES)


def job(args):
    cls, tier = args[:2]
    sizes = args[2] if len(args) > 2 else None
    sm = SourceModel()
    w = World(sm, cls, sizes=sizes)
    us = unit_system(cls)
    d = w.dim
    obs, samples, units = [], [], set()

    def ob(rule, construct, ok, detail='', loc=''):
        obs.append(dict(rule=rule, construct=construct, ok=bool(ok), detail=(f"[{cls}] " + str(detail))[:1200], loc=loc, nontrivial=True))

    def check(expr, want, construct, loc, what, coef_head=None):
        if expr.is_zero():
            return
        try:
            dm = us.rat_dim(expr)
        except Inhomogeneous as e:
            ob('H1', construct, False, f"{what}: {e.msg}", loc)
            return
        ob('H1', construct, True, f"{what}: homogeneous, dimension {dfmt(dm)}", loc)
        if want is not None:
            ob('H2', construct, dm == want, f"{what}: dimension {dfmt(dm)}, role demands {dfmt(want)}", loc)
        if coef_head is not None:
            bad = None
            for f_, e in expr.fac:
                has = any(isinstance(atom_key(a), tuple) and atom_key(a)[0] in coef_head for a in f_.atoms())
                if has and e < 0:
                    bad = 'coefficient field in a denominator'
                elif has:
                    if e != 1:
                        bad = f"coefficient field to the power {e}"
                    for m in f_.t:
                        n = sum(ee for (a, ee) in m if isinstance(atom_key(a), tuple) and atom_key(a)[0] in coef_head)
                        if n != 1:
                            bad = f"a term with {n} coefficient factors"
            nfac = sum(1 for f_, e in expr.fac if any(isinstance(atom_key(a), tuple) and atom_key(a)[0] in coef_head for a in f_.atoms()))
            if nfac != 1 and bad is None:
                bad = f"{nfac} factors depend on the coefficient field"
            if bad is None and construct.endswith('/u_upwind'):
                # a separate direction field was supplied: the sign split must not look at the coefficient field itself,
                # else the term is not additive in it (M(u1+u2; d) != M(u1; d) + M(u2; d))
                for a in expr.atoms():
                    k = atom_key(a)
                    if isinstance(k, tuple) and k and k[0] == 'ind' and any(isinstance(atom_key(b), tuple) and atom_key(b)[0] in coef_head for b in k[2].atoms()):
                        bad = f"the sign test {fmt_rat(Rat.atom(k), 3)} depends on the coefficient field although an upwind-direction field was given"
            ob('H3', construct, bad is None, f"{what}: " + (bad or 'degree one in the coefficient field'), loc)

    cells = F.cell_classes(w, 'quick', mode='axes')
    phi = w.cell_variable('phi')
    coefs = {'D': w.face_variable('D'), 'u': w.face_variable('u'), 'uu': w.face_variable('uu'), 'Fv': w.face_variable('Fv')}
    terms = [('diffusion', 'diffusionTerm', (coefs['D'],), INVT, {'D'}), ('advection', 'convectionTerm', (coefs['u'],), INVT, {'u'}),
             ('advection', 'convectionUpwindTerm', (coefs['u'],), INVT, {'u'}), ('advection', 'convectionUpwindTerm', (coefs['u'], coefs['uu']), INVT, {'u'}),
             ('advection', 'convectionTVDupwindRHSTerm', (coefs['u'], phi, OpaqueFn('FL')), KT, {'u'}),
             ('calculus', 'divergenceTerm', (coefs['Fv'],), (-1, 0, 0, 1), {'Fv'})]
    for module, fn, a, want, heads in terms:
        impl = F.implementer(sm, module, fn, cls)[0]
        fi = sm.func(module, impl)
        units.add(f"{module}.{impl}")
        construct = f"{module}.{impl}" + ('/u_upwind' if len(a) == 2 and fn == 'convectionUpwindTerm' else '')
        try:
            res = w.call(module, fn, *a)
        except AbstractRaise as e:
            ob('H1', construct, False, f"raises {e.exc}", fi.loc())
            continue
        for P in cells:
            if isinstance(res, ASparse):
                if res.issues:
                    ob('H1', construct, False, f"layout issues {res.issues[:1]}", fi.loc())
                    break
                for k, (c, v) in F.row_by_col(w, w.matrix_row(res, P)).items():
                    check(v, want, construct, fi.loc(), f"entry ({F.cstr(P)},{k})", heads)
            else:
                v = w.vector_at(res, P)
                # TVD: the limiter factors are bounded dimensionless; linearity is in u at fixed limiter values
                check(v, want, construct, fi.loc(), f"RHS at {F.cstr(P)}", heads if fn != 'convectionTVDupwindRHSTerm' else None)
                if fn == 'convectionTVDupwindRHSTerm':
                    fl = [k for (a_, k) in atoms_with_head(v, 'fn') if k[1] == 'FL']
                    for k in fl[:4]:
                        try:
                            dm = us.rat_dim(k[2])
                            ob('H5', construct, dm == ZERO4, f"limiter argument has dimension {dfmt(dm)}", fi.loc())
                        except Inhomogeneous as e:
                            ob('H5', construct, False, f"limiter argument: {e.msg}", fi.loc())
    # sources / transient
    beta = w.cell_variable('beta')
    gamma = w.cell_variable('gamma')
    P = tuple(w.g)
    fi = sm.func('source', 'linearSourceTerm')
    units.update({'source.linearSourceTerm', 'source.constantSourceTerm', 'source.transientTerm'})
    Ms = w.call('source', 'linearSourceTerm', beta)
    for k, (c, v) in F.row_by_col(w, w.matrix_row(Ms, P)).items():
        check(v, INVT, f"source.linearSourceTerm/{d}D", fi.loc(), 'diagonal entry', {'beta'})
    fi = sm.func('source', 'constantSourceTerm')
    check(w.vector_at(w.call('source', 'constantSourceTerm', gamma), P), KT, f"source.constantSourceTerm/{d}D", fi.loc(), 'RHS entry', {'gamma'})
    fi = sm.func('source', 'transientTerm')
    for al in (Rat.atom(('alpha',)), w.cell_variable('alphav')):
        Mt, Rt = w.call('source', 'transientTerm', w.cell_variable('phi', w.boundary_conditions()), Rat.atom(('dt',)), al)
        for k, (c, v) in F.row_by_col(w, w.matrix_row(Mt, P)).items():
            check(v, INVT, f"source.transientTerm/{d}D", fi.loc(), 'diagonal entry')
        check(w.vector_at(Rt, P), KT, f"source.transientTerm/{d}D", fi.loc(), 'RHS entry')
    # gradient, means
    fi = sm.func('calculus', 'gradientTerm')
    units.add('calculus.gradientTerm')
    g = w.call('calculus', 'gradientTerm', phi)
    for k in range(d):
        comp = snap(g.attrs['_' + AX[k] + 'value'])
        idx = tuple(w.g[j] - (0 if j == k else 1) for j in range(d))
        check(comp.at(idx), (-1, 0, 1, 0), f"calculus.gradientTerm[{cls}]/axis={AX[k]}", fi.loc(), 'face gradient')
    for m in ('linearMean', 'arithmeticMean', 'harmonicMean', 'upwindMean'):
        fi = sm.func('averaging', m)
        units.add('averaging.' + m)
        fv = w.call('averaging', m, phi, coefs['u']) if m == 'upwindMean' else w.call('averaging', m, phi)
        for k in range(d):
            comp = snap(fv.attrs['_' + AX[k] + 'value'])
            idx = tuple(w.g[j] - (0 if j == k else 1) for j in range(d))
            check(comp.at(idx), K, f"averaging.{m}/{d}D/axis={AX[k]}", fi.loc(), 'face value')
    # boundary rows and ghost values
    bc = w.boundary_conditions()
    gi = F.implementer(sm, 'boundary', 'cellValuesWithBoundaries', cls)[0]
    ri = F.implementer(sm, 'boundary', 'boundaryConditionsTerm', cls)[0]
    gfi, rfi = sm.func('boundary', gi), sm.func('boundary', ri)
    units.update({f"boundary.{gi}", f"boundary.{ri}"})
    phi_int = Box(atom_array(('phi',), w.N, offset=tuple(ONE for _ in w.N)))
    ghost = snap(w.call('boundary', 'cellValuesWithBoundaries', phi_int, bc))
    Mb, Rb = w.call('boundary', 'boundaryConditionsTerm', bc)
    for a in range(d):
        for gpos in (ZERO, w.N[a] + 1):
            G = tuple(gpos if k == a else w.g[k] for k in range(d))
            check(ghost.at(G), K, f"boundary.{gi}/axis={AX[a]}", gfi.loc(), f"ghost value at {F.cstr(G)}")
            for k, (c, v) in F.row_by_col(w, w.matrix_row(Mb, G)).items():
                check(v, ZERO4, f"boundary.{ri}/axis={AX[a]}", rfi.loc(), f"row entry ({F.cstr(G)},{k})")
            check(w.vector_at(Rb, G), K, f"boundary.{ri}/axis={AX[a]}", rfi.loc(), f"row RHS at {F.cstr(G)}")
    # volumes
    nlen = {'Grid1D': 1, 'Grid2D': 2, 'Grid3D': 3, 'CylindricalGrid1D': 2, 'CylindricalGrid2D': 3, 'PolarGrid2D': 2, 'CylindricalGrid3D': 3,
            'SphericalGrid1D': 3, 'SphericalGrid3D': 3}[cls]
    ci = sm.cls(cls)
    units.add(f"mesh.{cls}._getCellVolumes")
    check(w.vol_at(tuple(w.g)), (nlen, 0, 0, 0), f"mesh.{cls}._getCellVolumes", ci.loc(), 'cell volume')
    _tolerance_predicates(sm, w, us, cls, ob)
    return dict(obs=obs, units=sorted(units), samples=samples)


def _tolerance_predicates(sm, w, us, cls, ob):
    """H6: every np.isclose / np.allclose evaluated by the code analysed in this job.  Its outcome selects a path (or a value),
    so it must not change when the inputs are rescaled by their dimensions: an operand of non-zero dimension needs atol == 0
    (rtol is relative and therefore scale-invariant).  The pinned tree has no tolerance predicate at all, so a positive example is
    decided on every run (Grid1D job): np.allclose(DX, DX[0]) on the cell sizes must be found dimensional with numpy's default
    atol."""
    def enclosing(module, lineno):
        best = None
        for f in sm.all_functions():
            if f.module == module and f.node.lineno <= lineno <= (f.node.end_lineno or f.node.lineno):
                if best is None or f.node.lineno >= best.node.lineno:
                    best = f
        return best

    def decide(ev):
        _t, name, x, y, rtol, atol, module, lineno = ev[:8]
        dims = []
        for v in (x, y):
            if v is None:
                raise AnalysisError(f"np.{name} at {module}.py:{lineno}: operand not representable for the units domain")
            if v.is_zero():
                continue
            try:
                dims.append(us.rat_dim(v))
            except Inhomogeneous as e:
                return False, f"operand not homogeneous: {e.msg}"
        dm = next((q for q in dims if q != ZERO4), ZERO4)
        if dm == ZERO4 or atol.is_zero():
            return True, f"operands of dimension {dfmt(dm)}, atol={fmt_rat(atol, 3)}"
        return False, (f"compares quantities of dimension {dfmt(dm)} with the absolute tolerance atol={fmt_rat(atol, 3)}"
                       f"{' (numpy default)' if atol == Rat.const(__import__('fractions').Fraction(1, 100000000)) else ''}: its outcome changes with the unit system")
    seen = set()
    for ev in list(w.interp.events):
        if not (isinstance(ev, tuple) and ev and ev[0] == 'tolpred'):
            continue
        fi = enclosing(ev[6], ev[7])
        where = f"{ev[6]}.{fi.qualname}" if fi is not None else f"{ev[6]}"
        key = (where, ev[1], str(ev[5]))
        if key in seen:
            continue
        seen.add(key)
        ok, why = decide(ev)
        from .. import interp as _I
        used = ev[8] is not None and _I.JOB_FORK is not None and ev[8] in _I.JOB_FORK.decided_atoms
        if not ok and not used:
            # the predicate's outcome is stored or combined element-wise but no branch of the analysed code was decided on it:
            # nothing the properties look at depends on it here (a recorded flag nobody reads); element-wise uses stay in the
            # values and are judged by H1 there
            ok, why = True, why + ' - but no branch of the analysed code is decided on it'
        ob('H6', f"{where}/np.{ev[1]}[atol={fmt_rat(ev[5], 3)}]", ok, f"np.{ev[1]} at {ev[6]}.py:{ev[7]}: {why}", fi.loc() if fi is not None else '')
    if cls == 'Grid1D':
        n0 = len(w.interp.events)
        w.interp.run_snippet('q = np.allclose(DX, DX[0])', dict(DX=w.mesh.attrs['cellsize'].attrs['_x']))
        evs = [e for e in w.interp.events[n0:] if isinstance(e, tuple) and e and e[0] == 'tolpred']
        del w.interp.events[n0:]
        if len(evs) != 1 or decide(evs[0])[0]:
            raise AnalysisError("H6 self-check: np.allclose(DX, DX[0]) on cell sizes was not recognised as an absolute tolerance against a length")
        ob('H6', 'self-check/np.allclose(DX, DX[0])', True, 'positive example recognised: ' + decide(evs[0])[1])


# ---------------------------------------------------------------------------------------------- H4
def global_rules(sm, rep, tier):
    fs = sm.func('advection', '_fsign')
    rep.unit('advection._fsign')
    from ..pw import inlined_return
    a = fs.node.args
    param = a.args[0].arg
    defaults = {x.arg: d for x, d in zip(a.args[len(a.args) - len(a.defaults):], a.defaults)}
    # tiny AST units walk over the returned expression (local assignments inlined).  Dimension symbols: 'G' (the argument),
    # '1' (pure numbers), 'any' (the literal 0).  Every place where a pure number is compared with / added to / selected
    # next to a quantity of the argument's dimension is an *absolute threshold*; it is identified by the literal or the
    # defaulted parameter it comes from, so that a different threshold is a different finding.
    problems = {}         # threshold id -> [descriptions]
    unsupported = []

    def _walk_values(n):
        # sub-expressions that can *be* the threshold: the test of a conditional expression only selects, it is no magnitude
        yield n
        for fld, val in ast.iter_fields(n):
            if isinstance(n, ast.IfExp) and fld == 'test':
                continue
            for c_ in (val if isinstance(val, list) else [val]):
                if isinstance(c_, ast.AST):
                    yield from _walk_values(c_)

    def thr_ids(n):
        ids = []
        for x in _walk_values(n):
            if isinstance(x, ast.Name) and x.id in defaults and isinstance(defaults[x.id], ast.Constant) and isinstance(defaults[x.id].value, bool):
                continue          # a boolean option, not a magnitude
            if isinstance(x, ast.Name) and x.id != param and x.id in defaults and isinstance(defaults[x.id], ast.Constant):
                ids.append(f"{x.id}={defaults[x.id].value!r}")
            elif isinstance(x, ast.Name) and x.id != param and x.id not in ('np', 'numpy'):
                ids.append(x.id)
            elif isinstance(x, ast.Constant) and isinstance(x.value, (int, float)) and x.value != 0:
                ids.append(repr(x.value))
        return sorted(set(ids)) or ['<literal>']

    def flag(n, pure_side, what):
        for t in thr_ids(pure_side):
            problems.setdefault(t, []).append(f"line {n.lineno}: `{ast.unparse(n)[:80]}` {what}")

    def dim(n):
        if isinstance(n, ast.Constant):
            return 'any' if n.value == 0 else '1'
        if isinstance(n, ast.Name):
            return 'G' if n.id == param else '1'            # eps1 and other literals / defaults
        if isinstance(n, ast.Call):
            fname = n.func.attr if isinstance(n.func, ast.Attribute) else getattr(n.func, 'id', '?')
            if fname in ('abs', 'absolute', 'asarray', 'array', 'float64', 'float', 'copy'):
                return dim(n.args[0])
            if fname == 'sign':
                dim(n.args[0])
                return '1'
            if fname in ('logical_and', 'logical_or', 'logical_not'):
                for x in n.args:
                    dim(x)
                return '1'
            if fname in ('maximum', 'minimum', 'fmax', 'fmin') and len(n.args) == 2:
                da, db = dim(n.args[0]), dim(n.args[1])
                if 'any' not in (da, db) and da != db:
                    flag(n, n.args[0] if da == '1' else n.args[1], "clips a quantity of the argument's dimension at a pure number")
                return da if da not in ('any', '1') else db
            if fname == 'where' and len(n.args) == 3:
                dim(n.args[0])
                da, db = dim(n.args[1]), dim(n.args[2])
                if 'any' not in (da, db) and da != db:
                    flag(n, n.args[1] if da == '1' else n.args[2], "selects between a pure number and a quantity of the argument's dimension")
                return da if da not in ('any', '1') else db
            if fname in ('isclose', 'allclose') and len(n.args) >= 2:
                da, db = dim(n.args[0]), dim(n.args[1])
                kw = {k.arg: k.value for k in n.keywords}
                atol = kw.get('atol', n.args[3] if len(n.args) > 3 else None)
                d = da if da not in ('any',) else db
                if d not in ('1', 'any'):
                    if atol is None:
                        problems.setdefault(f"np.{fname} default atol=1e-08", []).append(
                            f"line {n.lineno}: `{ast.unparse(n)[:80]}` compares a quantity of the argument's dimension with numpy's absolute default tolerance atol=1e-08")
                    elif dim(atol) == '1':
                        flag(n, atol, "uses an absolute tolerance against a quantity of the argument's dimension")
                return '1'
            unsupported.append(f"line {n.lineno}: call {fname}")
            return '?'
        if isinstance(n, ast.Compare):
            da, db = dim(n.left), dim(n.comparators[0])
            if 'any' not in (da, db) and da != db:
                flag(n, n.left if da == '1' else n.comparators[0], "compares a quantity of the argument's dimension with a pure number")
            return '1'
        if isinstance(n, ast.BoolOp):
            for x in n.values:
                dim(x)
            return '1'
        if isinstance(n, ast.IfExp):
            dim(n.test)
            da, db = dim(n.body), dim(n.orelse)
            if 'any' not in (da, db) and da != db:
                flag(n, n.body if da == '1' else n.orelse, "selects between a pure number and a quantity of the argument's dimension")
            return da if da not in ('any', '1') else db
        if isinstance(n, ast.BinOp):
            da, db = dim(n.left), dim(n.right)
            if isinstance(n.op, (ast.Add, ast.Sub)):
                if 'any' not in (da, db) and da != db:
                    flag(n, n.left if da == '1' else n.right, "adds a pure number to a quantity of the argument's dimension")
                return da if da not in ('any', '1') else db
            if isinstance(n.op, (ast.Mult, ast.BitAnd, ast.BitOr)):
                if da in ('1', 'any'):
                    return db
                if db in ('1', 'any'):
                    return da
                return da + '*' + db
            if isinstance(n.op, ast.Div):
                return da if db in ('1', 'any') else ('1' if da == db else da + '/' + db)
            if isinstance(n.op, ast.Pow):
                return da if db in ('1', 'any') and isinstance(n.right, ast.Constant) and n.right.value == 1 else (da + '^k' if da == 'G' else da)
        if isinstance(n, ast.UnaryOp):
            return dim(n.operand)
        unsupported.append(f"unsupported node {type(n).__name__}")
        return '?'
    dim(inlined_return(fs.node))
    if unsupported:
        raise AnalysisError("_fsign: " + '; '.join(unsupported[:3]))
    if not problems:
        rep.ob('H4', 'advection._fsign', True, "no literal threshold meets a dimensional quantity", fs.loc())
    for t, descs in sorted(problems.items()):
        rep.ob('H4', f"advection._fsign/absolute-threshold[{t}]", False, '; '.join(descs[:3]), fs.loc())
    # where it is applied: to a gradient (K/L) in all 9 TVD builders -> dimensional
    rep.notes.append("_fsign is applied to dphi (dimension K/L) in every convectionTvdRHS* builder")


def finalize(sm, rep, tier, results):
    rep.floor('homogeneity obligations', sum(1 for o in rep.obs if o['rule'] == 'H1'), 900)
    rep.floor('units analysed', len(rep.units), 60)
    from ..units import UnitSystem, Inhomogeneous
    us = UnitSystem({'x': True, 'y': True, 'z': True}, ROLES)
    re_, rw_, Fe, Fw = (Rat.atom(k) for k in (('f', 'x', Rat.const(1)), ('f', 'x', Rat.const(0)), ('Fv', 'x', Rat.const(1)), ('Fv', 'x', Rat.const(0))))
    fired = False
    try:
        us.rat_dim(re_ * re_ * Fe - rw_ * Fw)
    except Inhomogeneous:
        fired = True
    rep.control('H1 fires on re*re*Fe - rw*Fw', fired)
    rep.samples.append(dict(rule='H2', example='diffusionTermCylindrical2D east coefficient rf*D/(rp*dx*DX): L * L^2/T / (L*L*L) = 1/T'))
