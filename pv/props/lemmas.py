"""Lemma groups: rules owned by one property's module that other properties' corollary clauses rest on.

A property such as C06 ("a uniform field with matching boundary values ... is a steady state of solvePDE for every time step")
or C12 ("a backward-Euler step satisfies ... in every cell") is a theorem with two kinds of premises: the stencil identities its
own module decides, and the *solve pipeline*: edits raise the dirty flags, the solve entry points refresh the cached boundary
system and the ghost layer, solvePDE hands the solver exactly boundary rows + terms and stores the result in place, and the
boundary rows encode the configured Robin relation.  When a pipeline rule fails there is an edit history / boundary datum for
which the dependent property fails as well, so each dependent check re-decides these rules (under their own rule ids) and
reports them as violations of its own property.  Rules that fail on today's tree as listed known findings (C09.P7, C03.B3) are
not part of any lemma group.
"""
from ..srcmodel import MESH_CLASSES

_REP3 = ('Grid1D', 'PolarGrid2D', 'Grid3D')


def _protocol_jobs(tier):
    return [('protocol', c, tier) for c in (_REP3 if tier == 'quick' else MESH_CLASSES)] + [('tracked', 'Grid1D', tier)]


def _solve_jobs(tier):
    return [(c, tier) for c in (_REP3 if tier == 'quick' else MESH_CLASSES)]


def _bcrow_jobs(tier):
    return [(c, (), tier) for c in MESH_CLASSES]


PROTOCOL = dict(module='c09', rules={'P1', 'P2', 'P3', 'P4', 'P4e', 'P5', 'P9', 'P8u', 'P10'}, jobs=_protocol_jobs, global_rules=True,
                why="no stale state: every edit of the alphabet raises a dirty flag, solvePDE / solveExplicitPDE / apply_BCs refresh the cached "
                    "boundary system and the ghost layer before use")
SOLVE = dict(module='c04', rules={'S1', 'S2', 'S3', 'S4', 'S5', 'S6', 'S7', 'S8', 'S9'}, jobs=_solve_jobs, global_rules=False,
             why="solvePDE hands the solver exactly (boundary rows + each term once), stores the reshaped result in the same object and "
                 "re-imposes the ghost layer; boundary data edited through the public setters are the ones solved with")
BCROWS = dict(module='c03', rules={'B1', 'B2', 'B6', 'B7', 'B9'}, jobs=_bcrow_jobs, global_rules=True,
              why="the boundary rows and the ghost formulas encode the configured Robin relation a*dphi/dn + b*phi = c with the metric factor")


def _algebra_jobs(tier):
    return [(c, tier) for c in (('Grid1D', 'Grid2D') if tier == 'quick' else MESH_CLASSES)]


ALGEBRA = dict(module='c14', rules={'O3', 'O4', 'O6'}, jobs=_algebra_jobs, global_rules=False,
               why="copy() and arithmetic hand out variables that share no storage and no boundary-condition object with their operands "
                   "(also on repeated calls), so edits of one never reach the other")


def _periodic_jobs(tier):
    """every admissible both-flag and single-flag periodic configuration of each class (as in C03's own quick tier)"""
    from .c03 import jobs as _c03_jobs
    return [j for j in _c03_jobs('quick' if tier == 'quick' else tier) if len(j) == 3 and j[1] != ()]


PERIODIC = dict(module='c03', rules={'B3'}, jobs=_periodic_jobs, global_rules=False,
                why="on an axis declared periodic (both faces or one face flagged) the ghost values wrap and the boundary rows are satisfied by "
                    "them: the periodic closure of the flux balance and of the solved system (the unequal-end-cells finding is listed for the "
                    "dependent property too)")


def _intbc_jobs(tier):
    return [(c, (), tier, 'int') for c in MESH_CLASSES]


INTBC = dict(module='c03', rules={'B1', 'B2'}, jobs=_intbc_jobs, global_rules=False,
             why="integer-dtype cell values (whole-number data are an int array in one unit system / on one grid and floats in another) "
                 "are not truncated in the ghost layer")


def _purity_jobs(tier):
    return [(c, tier) for c in MESH_CLASSES]


PURITY = dict(module='c15', rules={'Z1', 'Z6'}, jobs=_purity_jobs, global_rules=False,
              why="builders leave their arguments and the mesh as given and return the same values when called again: the operators "
                  "assembled for a solve are the ones analysed, whatever was assembled before")
