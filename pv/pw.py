"""Univariate piecewise-rational functions with exact (Fraction) coefficients, used to decide the
flux-limiter rules: a function of r is a finite list of break points, one rational function per open
interval, and an exact value at every break point.  Built from the syntax tree of a limiter body; min/max
and comparisons are supported between piecewise-*affine* operands (roots are rational), everything else
arithmetically.  Root questions use Sturm sequences."""
from __future__ import annotations
from fractions import Fraction
import ast
from .srcmodel import AnalysisError

F0, F1 = Fraction(0), Fraction(1)


# ----------------------------------------------------------------------------------------------
# univariate polynomials: list of Fractions, lowest degree first, no trailing zeros
# ----------------------------------------------------------------------------------------------
def ptrim(p):
    p = list(p)
    while p and p[-1] == 0:
        p.pop()
    return p


def padd(a, b):
    n = max(len(a), len(b))
    return ptrim([(a[i] if i < len(a) else F0) + (b[i] if i < len(b) else F0) for i in range(n)])


def pneg(a):
    return [-x for x in a]


def psub(a, b):
    return padd(a, pneg(b))


def pmul(a, b):
    if not a or not b:
        return []
    r = [F0] * (len(a) + len(b) - 1)
    for i, x in enumerate(a):
        for j, y in enumerate(b):
            r[i + j] += x * y
    return ptrim(r)


def pscale(a, c):
    return ptrim([x * c for x in a])


def pdeg(a):
    return len(a) - 1


def peval(a, x):
    r = F0
    for c in reversed(a):
        r = r * x + c
    return r


def pdivmod(a, b):
    a = list(a)
    q = [F0] * max(0, len(a) - len(b) + 1)
    while len(a) >= len(b) and a:
        c = a[-1] / b[-1]
        k = len(a) - len(b)
        q[k] = c
        for i, y in enumerate(b):
            a[i + k] -= c * y
        a = ptrim(a)
    return ptrim(q), a


def pderiv(a):
    return ptrim([a[i] * i for i in range(1, len(a))])


def pgcd(a, b):
    a, b = ptrim(a), ptrim(b)
    while b:
        _q, r = pdivmod(a, b)
        a, b = b, r
    if a:
        a = pscale(a, 1 / a[-1])
    return a


def sturm_chain(p):
    p = ptrim(p)
    ch = [p, pderiv(p)]
    while ch[-1]:
        _q, r = pdivmod(ch[-2], ch[-1])
        ch.append(pneg(r))
    ch.pop()
    return ch


def _sign_at(p, x):
    if x == 'inf':
        return 0 if not p else (1 if p[-1] > 0 else -1)
    if x == '-inf':
        if not p:
            return 0
        s = 1 if p[-1] > 0 else -1
        return s if pdeg(p) % 2 == 0 else -s
    v = peval(p, x)
    return 0 if v == 0 else (1 if v > 0 else -1)


def _variations(ch, x):
    signs = [s for s in (_sign_at(q, x) for q in ch) if s != 0]
    return sum(1 for i in range(1, len(signs)) if signs[i] != signs[i - 1])


def count_roots_open(p, a, b):
    """number of distinct real roots of p in the open interval (a, b); a/b may be '-inf'/'inf'"""
    p = ptrim(p)
    if not p:
        raise ValueError("zero polynomial")
    if pdeg(p) == 0:
        return 0
    # make square-free and remove roots at the end points
    g = pgcd(p, pderiv(p))
    if pdeg(g) > 0:
        p, _r = pdivmod(p, g)
    for e in (a, b):
        if e not in ('inf', '-inf'):
            while peval(p, e) == 0 and pdeg(p) > 0:
                p, _r = pdivmod(p, [-e, F1])
    if pdeg(p) == 0:
        return 0
    ch = sturm_chain(p)
    return _variations(ch, a) - _variations(ch, b)


# ----------------------------------------------------------------------------------------------
# rational function = (num, den)
# ----------------------------------------------------------------------------------------------
class RF:
    __slots__ = ('n', 'd')

    def __init__(self, n, d=None):
        self.n = ptrim(n)
        self.d = ptrim(d) if d is not None else [F1]
        if not self.d:
            raise ZeroDivisionError("zero denominator polynomial")

    @staticmethod
    def const(c):
        return RF([Fraction(c)])

    def is_affine(self):
        return pdeg(self.d) == 0 and pdeg(self.n) <= 1

    def eval(self, x):
        dv = peval(self.d, x)
        if dv == 0:
            raise ZeroDivisionError
        return peval(self.n, x) / dv

    def __add__(self, o):
        return RF(padd(pmul(self.n, o.d), pmul(o.n, self.d)), pmul(self.d, o.d)).reduce()

    def __sub__(self, o):
        return RF(psub(pmul(self.n, o.d), pmul(o.n, self.d)), pmul(self.d, o.d)).reduce()

    def __mul__(self, o):
        return RF(pmul(self.n, o.n), pmul(self.d, o.d)).reduce()

    def div(self, o):
        if not o.n:
            raise ZeroDivisionError
        return RF(pmul(self.n, o.d), pmul(self.d, o.n))     # NOT reduced: keep the removable singularities visible

    def reduce(self):
        if pdeg(self.d) == 0:
            return RF(pscale(self.n, 1 / self.d[0]), [F1])
        return self

    def equals(self, o):
        return not psub(pmul(self.n, o.d), pmul(o.n, self.d))

    def __repr__(self):
        return f"({self.n})/({self.d})"


class DivZero(Exception):
    pass


NAN = 'nan'


class PW:
    """breaks: sorted Fractions b_0..b_{k-1}; pieces: k+1 RFs for (-inf,b_0),(b_0,b_1),...,(b_{k-1},inf);
    points: k exact values (Fraction or NAN) at the breaks"""

    def __init__(self, breaks, pieces, points):
        self.breaks = list(breaks)
        self.pieces = list(pieces)
        self.points = list(points)
        assert len(self.pieces) == len(self.breaks) + 1 and len(self.points) == len(self.breaks)

    @staticmethod
    def const(c):
        return PW([], [RF.const(c)], [])

    @staticmethod
    def var():
        return PW([], [RF([F0, F1])], [])

    def refine(self, breaks):
        allb = sorted(set(self.breaks) | set(breaks))
        pieces, points = [], []
        for i in range(len(allb) + 1):
            lo = allb[i - 1] if i > 0 else None
            hi = allb[i] if i < len(allb) else None
            pieces.append(self.piece_for(lo, hi))
        for b in allb:
            points.append(self.at(b))
        return PW(allb, pieces, points)

    def piece_for(self, lo, hi):
        # the piece of self containing the open interval (lo, hi)
        for i, p in enumerate(self.pieces):
            plo = self.breaks[i - 1] if i > 0 else None
            phi = self.breaks[i] if i < len(self.breaks) else None
            if (plo is None or (lo is not None and lo >= plo)) and (phi is None or (hi is not None and hi <= phi)):
                return p
        raise AnalysisError("piece lookup failed")

    def at(self, x):
        x = Fraction(x)
        for i, b in enumerate(self.breaks):
            if x == b:
                return self.points[i]
        for i, p in enumerate(self.pieces):
            plo = self.breaks[i - 1] if i > 0 else None
            phi = self.breaks[i] if i < len(self.breaks) else None
            if (plo is None or x > plo) and (phi is None or x < phi):
                try:
                    return p.eval(x)
                except ZeroDivisionError:
                    return NAN
        raise AnalysisError("point lookup failed")

    def intervals(self):
        for i, p in enumerate(self.pieces):
            lo = self.breaks[i - 1] if i > 0 else '-inf'
            hi = self.breaks[i] if i < len(self.breaks) else 'inf'
            yield lo, hi, p

    def is_affine(self):
        return all(p.is_affine() for p in self.pieces)

    def simplify(self):
        """merge equal neighbouring pieces when the point value agrees with both"""
        b, pc, pt = list(self.breaks), list(self.pieces), list(self.points)
        i = 0
        while i < len(b):
            l, r = pc[i], pc[i + 1]
            same = l.equals(r)
            if same:
                try:
                    v = l.eval(b[i])
                except ZeroDivisionError:
                    v = NAN
                if v != NAN and pt[i] != NAN and v == pt[i] and peval(l.d, b[i]) != 0:
                    del b[i], pt[i], pc[i + 1]
                    continue
            i += 1
        return PW(b, pc, pt)


def _combine(a: PW, b: PW, fpiece, fpoint, extra_breaks=()):
    brk = sorted(set(a.breaks) | set(b.breaks) | set(extra_breaks))
    ar, br = a.refine(brk), b.refine(brk)
    pieces = [fpiece(x, y) for x, y in zip(ar.pieces, br.pieces)]
    points = []
    for x, y in zip(ar.points, br.points):
        if x == NAN or y == NAN:
            points.append(NAN)
        else:
            try:
                points.append(fpoint(x, y))
            except ZeroDivisionError:
                points.append(NAN)
    return PW(brk, pieces, points)


def pw_add(a, b):
    return _combine(a, b, lambda x, y: x + y, lambda x, y: x + y)


def pw_sub(a, b):
    return _combine(a, b, lambda x, y: x - y, lambda x, y: x - y)


def pw_mul(a, b):
    return _combine(a, b, lambda x, y: x * y, lambda x, y: x * y)


def pw_div(a, b):
    def piece(x, y):
        if not y.n:
            raise DivZero("division by a function that is identically zero on an interval")
        return x.div(y)
    return _combine(a, b, piece, lambda x, y: x / y)


def _cross(a: PW, b: PW):
    """break points where the affine pieces of a and b cross"""
    if not (a.is_affine() and b.is_affine()):
        raise AnalysisError("min/max/comparison of non-piecewise-affine operands is not supported")
    brk = sorted(set(a.breaks) | set(b.breaks))
    ar, br = a.refine(brk), b.refine(brk)
    extra = []
    for (lo, hi, pa), pb in zip(ar.intervals(), br.pieces):
        d = (pa - pb)
        n = d.n
        if pdeg(n) == 1:
            root = -n[0] / n[1]
            if (lo == '-inf' or root > lo) and (hi == 'inf' or root < hi):
                extra.append(root)
    return extra


def _sample(lo, hi):
    if lo == '-inf' and hi == 'inf':
        return F0
    if lo == '-inf':
        return hi - 1
    if hi == 'inf':
        return lo + 1
    return (lo + hi) / 2


def pw_select(a: PW, b: PW, choose):
    """pointwise choose(x, y) in {x or y} for piecewise affine a, b (min / max)"""
    extra = _cross(a, b)
    brk = sorted(set(a.breaks) | set(b.breaks) | set(extra))
    ar, br = a.refine(brk), b.refine(brk)
    pieces = []
    for (lo, hi, pa), pb in zip(ar.intervals(), br.pieces):
        s = _sample(lo, hi)
        va, vb = pa.eval(s), pb.eval(s)
        pieces.append(pa if choose(va, vb) == va else pb)
    points = [NAN if (x == NAN or y == NAN) else choose(x, y) for x, y in zip(ar.points, br.points)]
    return PW(brk, pieces, points)


def pw_compare(a: PW, b: PW, op):
    """indicator (0/1) of a op b"""
    import operator
    fn = {'>': operator.gt, '<': operator.lt, '>=': operator.ge, '<=': operator.le, '==': operator.eq, '!=': operator.ne}[op]
    extra = _cross(a, b)
    brk = sorted(set(a.breaks) | set(b.breaks) | set(extra))
    ar, br = a.refine(brk), b.refine(brk)
    pieces = []
    for (lo, hi, pa), pb in zip(ar.intervals(), br.pieces):
        if pa.equals(pb):
            pieces.append(RF.const(1 if fn(0, 0) else 0))
        else:
            s = _sample(lo, hi)
            pieces.append(RF.const(1 if fn(pa.eval(s), pb.eval(s)) else 0))
    points = [NAN if (x == NAN or y == NAN) else Fraction(1 if fn(x, y) else 0) for x, y in zip(ar.points, br.points)]
    return PW(brk, pieces, points)


def pw_abs(a: PW):
    return pw_select(a, pw_sub(PW.const(0), a), max)


def pw_sign(a: PW):
    z = PW.const(0)
    return pw_sub(pw_compare(a, z, '>'), pw_compare(a, z, '<'))


# ----------------------------------------------------------------------------------------------
# from a syntax tree
# ----------------------------------------------------------------------------------------------
def pw_from_ast(node, env, var):
    """env: {name: Fraction constant}; var: name of the real variable"""
    t = type(node)
    if t is ast.Constant:
        if isinstance(node.value, bool):
            return PW.const(int(node.value))
        if isinstance(node.value, (int, float)):
            return PW.const(Fraction(repr(node.value)))
        raise AnalysisError(f"constant {node.value!r} in a limiter")
    if t is ast.Name:
        if node.id == var:
            return PW.var()
        if node.id in env:
            return PW.const(env[node.id])
        raise AnalysisError(f"free name {node.id} in a limiter formula")
    if t is ast.UnaryOp:
        v = pw_from_ast(node.operand, env, var)
        if isinstance(node.op, ast.USub):
            return pw_sub(PW.const(0), v)
        if isinstance(node.op, ast.UAdd):
            return v
        if isinstance(node.op, (ast.Invert, ast.Not)):
            return pw_sub(PW.const(1), v)           # ~ / not of a 0/1 indicator
        raise AnalysisError("unary operator in a limiter")
    if t is ast.BinOp:
        a = pw_from_ast(node.left, env, var)
        b = pw_from_ast(node.right, env, var)
        if isinstance(node.op, ast.Add):
            return pw_add(a, b)
        if isinstance(node.op, ast.Sub):
            return pw_sub(a, b)
        if isinstance(node.op, ast.Mult):
            return pw_mul(a, b)
        if isinstance(node.op, ast.Div):
            return pw_div(a, b)
        if isinstance(node.op, ast.Pow):
            if not (b.breaks == [] and pdeg(b.pieces[0].n) <= 0 and pdeg(b.pieces[0].d) == 0):
                raise AnalysisError("non-constant exponent in a limiter")
            e = b.pieces[0].eval(F0)
            if e.denominator != 1 or e < 0:
                raise AnalysisError("non-natural exponent in a limiter")
            r = PW.const(1)
            for _ in range(int(e)):
                r = pw_mul(r, a)
            return r
        raise AnalysisError("operator in a limiter")
    if t is ast.IfExp:
        c = pw_from_ast(node.test, env, var)
        if c.breaks == [] and pdeg(c.pieces[0].n) <= 0 and pdeg(c.pieces[0].d) == 0:
            # a condition that does not depend on the variable (a parameter / default): python truthiness selects the branch
            return pw_from_ast(node.body if c.pieces[0].eval(F0) != 0 else node.orelse, env, var)
        a_, b_ = pw_from_ast(node.body, env, var), pw_from_ast(node.orelse, env, var)
        return pw_add(pw_mul(c, a_), pw_mul(pw_sub(PW.const(1), c), b_))
    if t is ast.Compare and len(node.ops) == 1:
        a = pw_from_ast(node.left, env, var)
        b = pw_from_ast(node.comparators[0], env, var)
        op = {ast.Gt: '>', ast.Lt: '<', ast.GtE: '>=', ast.LtE: '<=', ast.Eq: '==', ast.NotEq: '!='}.get(type(node.ops[0]))
        if op is None:
            raise AnalysisError("comparison in a limiter")
        if not (a.is_affine() and b.is_affine()):
            # comparison of a rational expression with a constant: only == / != 0 via numerator roots is needed (ospre guard)
            if op in ('==', '!=') and b.breaks == [] and b.pieces[0].is_affine() and pdeg(b.pieces[0].n) <= 0:
                return _eq_const(a, b.pieces[0].eval(F0), op)
            raise AnalysisError("comparison of non-affine operands in a limiter")
        return pw_compare(a, b, op)
    if t is ast.Call:
        fname = None
        if isinstance(node.func, ast.Attribute) and isinstance(node.func.value, ast.Name) and node.func.value.id in ('np', 'numpy'):
            fname = node.func.attr
        elif isinstance(node.func, ast.Name):
            fname = 'py:' + node.func.id
        args = [pw_from_ast(a, env, var) for a in node.args]
        if fname in ('abs', 'absolute', 'py:abs') and len(args) == 1:
            return pw_abs(args[0])
        if fname == 'minimum' and len(args) == 2:
            return pw_select(args[0], args[1], min)
        if fname == 'maximum' and len(args) == 2:
            return pw_select(args[0], args[1], max)
        if fname == 'sign' and len(args) == 1:
            return pw_sign(args[0])
        if fname == 'where' and len(args) == 3:
            c = args[0]                                 # 0/1 indicator
            return pw_add(pw_mul(c, args[1]), pw_mul(pw_sub(PW.const(1), c), args[2]))
        if fname in ('logical_and',) and len(args) == 2:
            return pw_mul(args[0], args[1])
        if fname in ('logical_or',) and len(args) == 2:
            return pw_sub(PW.const(1), pw_mul(pw_sub(PW.const(1), args[0]), pw_sub(PW.const(1), args[1])))
        if fname in ('logical_not',) and len(args) == 1:
            return pw_sub(PW.const(1), args[0])
        if fname == 'isclose' and len(args) >= 2:
            # |a - b| <= atol + rtol*|b|  (numpy's definition; defaults rtol=1e-05, atol=1e-08)
            kw = {k.arg: pw_from_ast(k.value, env, var) for k in node.keywords}
            rtol = kw.get('rtol', args[2] if len(args) > 2 else PW.const(Fraction(1, 100000)))
            atol = kw.get('atol', args[3] if len(args) > 3 else PW.const(Fraction(1, 100000000)))
            return pw_compare(pw_abs(pw_sub(args[0], args[1])), pw_add(atol, pw_mul(rtol, pw_abs(args[1]))), '<=')
        if fname in ('float64', 'asarray', 'array', 'py:float') and len(args) == 1:
            return args[0]
        raise AnalysisError(f"call {ast.unparse(node.func)} in a limiter formula is not modelled")
    raise AnalysisError(f"{t.__name__} in a limiter formula")


def _eq_const(a: PW, c, op):
    """indicator of (a == c) for piecewise rational a: 1 only at isolated rational roots that are break points or
    where a numerator root is rational; if the equation has no real solution the indicator is identically 0"""
    pieces = []
    for lo, hi, p in a.intervals():
        num = psub(p.n, pscale(p.d, c))
        if not num:
            pieces.append(RF.const(1))
            continue
        if count_roots_open(num, lo, hi) != 0:
            raise AnalysisError("equality guard with roots inside a piece is not supported")
        pieces.append(RF.const(0))
    points = [NAN if v == NAN else Fraction(1 if v == c else 0) for v in a.points]
    r = PW(a.breaks, pieces, points)
    if op == '!=':
        return pw_sub(PW.const(1), r)
    return r


# ----------------------------------------------------------------------------------------------
# straight-line function bodies: inline the local assignments into the returned expression
# ----------------------------------------------------------------------------------------------
class _Subst(ast.NodeTransformer):
    def __init__(self, env):
        self.env = env

    def visit_Name(self, node):
        if isinstance(node.ctx, ast.Load) and node.id in self.env:
            import copy
            return copy.deepcopy(self.env[node.id])
        return node


def inlined_return(fnode):
    """the expression a straight-line function returns, with its local single-name assignments substituted (so that
    `t = np.isclose(x, 0.0); return np.where(t, e, x)` and the one-line form are the same tree).  Anything but a docstring,
    simple `name = expr` assignments and one final `return expr` is an AnalysisError."""
    env = {}
    body = list(fnode.body)
    for k, st in enumerate(body):
        if isinstance(st, ast.Expr) and isinstance(st.value, ast.Constant) and isinstance(st.value.value, str):
            continue
        if isinstance(st, ast.Assign) and len(st.targets) == 1 and isinstance(st.targets[0], ast.Name):
            env[st.targets[0].id] = _Subst(env).visit(__import__('copy').deepcopy(st.value))
            continue
        if isinstance(st, ast.Return) and st.value is not None and k == len(body) - 1:
            return ast.fix_missing_locations(_Subst(env).visit(__import__('copy').deepcopy(st.value)))
        raise AnalysisError(f"{fnode.name}: line {st.lineno}: not a straight-line body (assignments + one return)")
    raise AnalysisError(f"{fnode.name}: no return")
