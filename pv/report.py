"""Obligation bookkeeping, known findings, evidence files, exit codes."""
from __future__ import annotations
import json
import os
import sys
import time
import hashlib

VERIF = os.path.dirname(os.path.dirname(os.path.abspath(__file__)))
KNOWN = os.path.join(VERIF, 'known_findings.json')
EVDIR = os.environ.get('PV_EVIDENCE_DIR') or os.path.join(VERIF, 'evidence')


def load_known():
    if not os.path.exists(KNOWN):
        return []
    with open(KNOWN) as f:
        return json.load(f).get('findings', [])


class Report:
    def __init__(self, prop, tier, seed=0):
        self.prop = prop
        self.tier = tier
        self.seed = seed
        self.t0 = time.time()
        self.obs = []            # dict(rule, construct, ok, detail, loc, nontrivial)
        self.units = set()       # functions analysed
        self.assumptions = []
        self.notes = []
        self.samples = []
        self.floors = []         # (what, count, floor)
        self.rule_text = {}
        self.explanation = ''
        self.controls = []       # positive controls (name, fired)
        self.trusted = []
        self.job_errors = []     # jobs that ended in an analysis error (the run is then never reported as passing)

    # -- recording
    def ob(self, rule, construct, ok, detail='', loc='', nontrivial=True, sample=None):
        self.obs.append(dict(rule=rule, construct=construct, ok=bool(ok), detail=str(detail)[:1500], loc=loc,
                             nontrivial=bool(nontrivial)))
        if sample is not None and len(self.samples) < 12:
            self.samples.append(sample)
        return ok

    def unit(self, *names):
        for n in names:
            self.units.add(n)

    def floor(self, what, count, floor):
        self.floors.append((what, int(count), int(floor)))

    def control(self, name, fired, detail=''):
        self.controls.append((name, bool(fired), detail))

    def merge(self, other_obs, units=(), samples=()):
        self.obs.extend(other_obs)
        self.units |= set(units)
        for s in samples:
            if len(self.samples) < 12:
                self.samples.append(s)

    # -- finishing
    def finish(self, level='other', checker_cmd=None):
        known = [k for k in load_known() if k.get('property') == self.prop]
        known_open = {(k['rule'], k['construct']): k for k in known if k.get('status') == 'known'}
        fails = [o for o in self.obs if not o['ok']]
        # group failures by (rule, construct)
        grouped = {}
        for o in fails:
            grouped.setdefault((o['rule'], o['construct']), []).append(o)
        unlisted = []
        seen_known = []
        for key, lst in sorted(grouped.items()):
            if key in known_open:
                seen_known.append((key, lst))
            else:
                unlisted.append((key, lst))
        broken = []
        for what, count, fl in self.floors:
            if count < fl:
                broken.append(f"instance count for {what} is {count}, below the hand-confirmed floor {fl}")
        for name, fired, detail in self.controls:
            if not fired:
                broken.append(f"positive control '{name}' did not fire: {detail}")
        os.makedirs(EVDIR, exist_ok=True)
        os.makedirs(os.path.join(EVDIR, 'replay'), exist_ok=True)
        lines = []
        for key, lst in seen_known:
            k = known_open[key]
            lines.append(f"KNOWN-FINDING: property={self.prop} rule={key[0]} construct={key[1]} :: {k.get('what', '')}")
        vio_paths = []
        for n, (key, lst) in enumerate(unlisted):
            h = hashlib.sha1(f"{key[0]}|{key[1]}".encode()).hexdigest()[:10]
            path = os.path.join(EVDIR, 'replay', f"{self.prop}-{h}.json")
            with open(path, 'w') as f:
                json.dump(dict(property=self.prop, rule=key[0], construct=key[1], tier=self.tier,
                               failures=lst[:20]), f, indent=1)
            vio_paths.append(path)
            o = lst[0]
            lines.append(f"VIOLATION property={self.prop} replay={path}")
            lines.append(f"  rule={key[0]} construct={key[1]} at {o['loc']}")
            lines.append(f"  {o['detail'][:600]}")
        n_obs = len(self.obs)
        distinct = len({(o['rule'], o['construct'], o['detail'][:80] if not o['ok'] else '') for o in self.obs if o['nontrivial']})
        distinct_keys = len({(o['rule'], o['construct']) for o in self.obs if o['nontrivial']})
        wall = time.time() - self.t0
        cov = dict(
            explanation=self.explanation,
            obligations=n_obs,
            discharged=n_obs - len(fails),
            evaluations=n_obs,
            distinct_nontrivial=distinct_keys,
            rule="; ".join(f"{k}: {v}" for k, v in sorted(self.rule_text.items())) or 'see explanation',
            samples=self.samples[:12] or [dict(note='no obligations were generated')],
            units_analysed=sorted(self.units),
            n_units=len(self.units),
            instance_floors=[dict(what=w, count=c, floor=f) for w, c, f in self.floors],
            positive_controls=[dict(name=n, fired=f, detail=d) for n, f, d in self.controls],
            known_findings_seen=[dict(rule=k[0], construct=k[1], failing_obligations=len(l)) for k, l in seen_known],
            unlisted_violations=[dict(rule=k[0], construct=k[1], failing_obligations=len(l)) for k, l in unlisted],
            per_rule={r: dict(total=sum(1 for o in self.obs if o['rule'] == r),
                              failed=sum(1 for o in self.obs if o['rule'] == r and not o['ok']))
                      for r in sorted({o['rule'] for o in self.obs})},
            notes=self.notes,
            analysis_errors=list(self.job_errors),
            exhaustive=False,
        )
        if checker_cmd:
            cov['checker_cmd'] = checker_cmd
        cov['trusted_base'] = self.trusted or ["CPython ast", "pv.arrays model of the numpy subset (fail-closed)",
                                               "pv.alg exact polynomial arithmetic"]
        ev = dict(property_id=self.prop, tier=self.tier, seed=int(self.seed), level=level, coverage=cov,
                  assumptions=self.assumptions, wall_s=round(wall, 3), violations=len(unlisted))
        with open(os.path.join(EVDIR, f"{self.prop}.json"), 'w') as f:
            json.dump(ev, f, indent=1, default=str)
        print(f"[{self.prop}] tier={self.tier} obligations={n_obs} failed={len(fails)} "
              f"(known={sum(len(l) for _k, l in seen_known)}, unlisted={sum(len(l) for _k, l in unlisted)}) "
              f"units={len(self.units)} wall={wall:.1f}s")
        for r, d in cov['per_rule'].items():
            print(f"  rule {r}: {d['total']} obligations, {d['failed']} failed")
        for ln in lines:
            print(ln)
        broken = broken + [f"job not analysed: {e}" for e in self.job_errors]
        for b in broken:
            print(f"ANALYSIS-ERROR property={self.prop} {b}")
        if unlisted:
            return 1            # a definite violation was derived; incomplete coverage elsewhere does not retract it
        return 2 if broken else 0


def analysis_error(prop, tier, msg, seed=0):
    """write a minimal evidence file and return exit code 2"""
    os.makedirs(EVDIR, exist_ok=True)
    ev = dict(property_id=prop, tier=tier, seed=int(seed), level='other',
              coverage=dict(explanation=f"analysis error: {msg}", evaluations=0, distinct_nontrivial=0, samples=[]),
              assumptions=[], wall_s=0.0, violations=0)
    with open(os.path.join(EVDIR, f"{prop}.json"), 'w') as f:
        json.dump(ev, f, indent=1)
    print(f"ANALYSIS-ERROR property={prop} {msg}")
    return 2
