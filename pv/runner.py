"""Job runner shared by the check driver and its worker processes (importable, so that workers can be started with the
`forkserver` / `spawn` methods as well as with `fork`)."""
import sys, os, importlib, traceback
from .srcmodel import AnalysisError

sys.setrecursionlimit(10000)


# CPython (3.11+) keeps interpreter frames on a "data stack" made of 16 KiB chunks that are mmap'ed when a call crosses the end of
# the current chunk and munmap'ed again when it returns across it.  The analyser recurses deeply and calls small functions in hot
# loops, so some loop always sits on a chunk boundary: 10^5 mmap/munmap pairs per job, each ~0.4 ms on this kind of machine -
# more time than the analysis itself (measured 54 s vs 8 s for one 3-D job).  A frame with a huge evaluation stack forces one
# big chunk (the interpreter rounds 4 MiB + a little up to 8 MiB); everything called from inside it lives in the rest of that
# chunk, so no chunk is allocated or freed while the analysis runs.
def _holder(f, a, k):
    return f(*a, **k)


try:
    import types as _types
    _BIG = _types.FunctionType(_holder.__code__.replace(co_stacksize=(4 * 1024 * 1024) // 8 + 4096), globals())
except Exception:                      # pragma: no cover - an optimisation only
    _BIG = _holder


def in_big_frame(f, *a, **k):
    return _BIG(f, a, k)


def run_job_once(m, args):
    try:
        return m.job(args)
    except AnalysisError as e:
        return dict(error=f"{args}: {e}")
    except RecursionError as e:
        return dict(error=f"{args}: recursion limit")
    except Exception as e:
        return dict(error=f"{args}: internal {type(e).__name__}: {e}\n" + traceback.format_exc(limit=8))


MAX_JOB_PATHS = 16


def lemmas_of(mod, tier):
    out = []
    for lm in getattr(mod, 'LEMMAS', []):
        lm = dict(lm)
        lm['jobs'] = list(lm['jobs'](tier)) if callable(lm.get('jobs')) else list(lm.get('jobs', []))
        lm['rules'] = set(lm['rules'])
        out.append(lm)
    return out


def run_job(a):
    return in_big_frame(_run_job_impl, a)


def _run_job_impl(a):
    """one job; re-run once per decision sequence when the analysed code branches on a tolerance predicate (interp.JobFork):
    the obligations must hold on every such path, a failure on any path is a failure (its detail names the path)"""
    mod, args = a
    m = importlib.import_module(f"pv.props.{mod}")
    from pv import interp as I
    stack, done = [[]], []
    while stack:
        forced = stack.pop()
        if len(done) + len(stack) >= MAX_JOB_PATHS:
            return dict(error=f"{args}: more than {MAX_JOB_PATHS} paths through branches on tolerance predicates")
        I.JOB_FORK = fk = I.JobFork(forced)
        try:
            r = run_job_once(m, args)
        except I.JobNeedDecision:
            stack.append(forced + [False])
            stack.append(forced + [True])
            continue
        finally:
            I.JOB_FORK = None
        done.append((fk.log, r, fk.pinned))
    if len(done) == 1 and not done[0][0]:
        return done[0][1]
    # rules about effects, aliasing and call structure: independent of data values, definite on every path
    STRUCTURAL_RULES = {('C15', 'Z1'), ('C15', 'Z2'), ('C15', 'Z3'), ('C15', 'Z4'), ('C15', 'Z5'), ('C04', 'S1'), ('C04', 'S3'), ('C09', 'P8u'), ('C09', 'P1'),
                        ('C09', 'P2'), ('C09', 'P9'), ('C14', 'O3'), ('C14', 'O4'), ('C14', 'O6'), ('C12', 'T3'), ('C11', 'W9'), ('C16', 'L1'), ('C16', 'L2'),
                        ('C16', 'L3'), ('C16', 'L4'), ('C16', 'L5'), ('C16', 'L6'), ('C16', 'L7'), ('C16', 'L9')}
    # several paths: the union of the obligations, each marked with its path; one analysis error makes the job an error,
    # but definite failures found on other paths are kept
    out = dict(obs=[], units=[], samples=[], funcs=[], notes=[])
    errs = []
    for log, r, pinned in done:
        tag = ' & '.join(f"{w} is {'true' if d else 'false'}" for w, d in log)
        if 'error' in r:
            errs.append(f"[path {tag}] {r['error']}")
        for o in r.get('obs', []):
            o = dict(o)
            o['detail'] = (f"[path: {tag}] " + str(o.get('detail', '')))[:1500]
            if pinned and not o['ok'] and (mod.upper(), o['rule']) not in STRUCTURAL_RULES and o['rule'] not in {r_ for (_m, r_) in STRUCTURAL_RULES}:
                # a value obligation failing on a path where np.any / np.all pins the data: the equality it implies is not
                # used by the algebra, so this is undetermined, not a violation
                errs.append(f"[path {tag}] rule {o['rule']} at {o['construct']} is undetermined on a path where a quantified predicate pins the data")
                continue
            out['obs'].append(o)
        for k in ('units', 'samples', 'funcs', 'notes'):
            for x in r.get(k, []):
                if x not in out[k]:
                    out[k].append(x)
    out['notes'].append(f"{len(done)} paths through tolerance-predicate branches explored for job {args}")
    if errs:
        out['error'] = ' | '.join(errs)
        out['obs'] = [o for o in out['obs'] if not o['ok']]
    return out


