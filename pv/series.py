"""Truncated Laurent series in the mesh-size parameter eps with Rat coefficients and explicit precision:
s = sum_{k >= val} c_k eps^k, coefficients reliable for powers < top (top may be infinite for exact polynomials).
Used for the consistency analysis (C02): mesh atoms, smooth-field samples and sines are expanded about a point."""
from __future__ import annotations
from .alg import Rat, Poly, atom_key
from .srcmodel import AnalysisError

INF = 10 ** 9
MAXT = 7       # at most this many coefficients are carried


class Series:
    __slots__ = ('val', 'c', 'top')

    def __init__(self, val, coeffs, top=INF):
        c = list(coeffs)
        while c and c[0].is_zero():
            c.pop(0)
            val += 1
        if top - val > MAXT:
            top = val + MAXT
        c = c[:max(0, top - val)]
        while c and c[-1].is_zero() and False:
            c.pop()
        self.val = val
        self.c = c
        self.top = top

    @staticmethod
    def const(r):
        return Series(0, [Rat.of(r)], INF)

    @staticmethod
    def poly(coeffs):
        """exact polynomial c0 + c1 eps + ..."""
        return Series(0, [Rat.of(x) for x in coeffs], INF)

    def coeff(self, power):
        if power >= self.top:
            raise AnalysisError(f"series coefficient of eps^{power} requested beyond the retained precision (top={self.top})")
        k = power - self.val
        if k < 0 or k >= len(self.c):
            return Rat.const(0)
        return self.c[k]

    def _get(self, power):
        k = power - self.val
        if k < 0 or k >= len(self.c):
            return Rat.const(0)
        return self.c[k]

    def __add__(self, o):
        top = min(self.top, o.top)
        if not self.c and not o.c:
            return Series(0, [], top)
        v = min(self.val if self.c else INF, o.val if o.c else INF)
        hi = min(top, v + MAXT, max(self.val + len(self.c), o.val + len(o.c)))
        out = [self._get(p) + o._get(p) for p in range(v, hi)]
        return Series(v, out, top)

    def __neg__(self):
        return Series(self.val, [-x for x in self.c], self.top)

    def __sub__(self, o):
        return self + (-o)

    def __mul__(self, o):
        if not self.c or not o.c:
            # zero to known precision
            ta = self.top - (self.val if self.c else self.top)
            return Series(0, [], min(self.top + (o.val if o.c else 0), o.top + (self.val if self.c else 0)) if (self.top < INF or o.top < INF) else INF)
        pa = self.top - self.val
        pb = o.top - o.val
        p = min(pa, pb, MAXT)
        v = self.val + o.val
        n = min(p, len(self.c) + len(o.c) - 1)
        out = []
        for k in range(n):
            s = Rat.const(0)
            for i in range(max(0, k - len(o.c) + 1), min(k, len(self.c) - 1) + 1):
                s = s + self.c[i] * o.c[k - i]
            out.append(s)
        top = v + min(pa, pb) if min(pa, pb) < INF else INF
        return Series(v, out, top)

    def scale(self, r):
        return Series(self.val, [x * r for x in self.c], self.top)

    def inv(self):
        if not self.c:
            raise ZeroDivisionError("series inverse of (truncated) zero")
        p = min(self.top - self.val, MAXT)
        a0 = self.c[0]
        out = [1 / a0]
        for k in range(1, p):
            s = Rat.const(0)
            for i in range(1, k + 1):
                if i < len(self.c):
                    s = s + self.c[i] * out[k - i]
            out.append(-s / a0)
        return Series(-self.val, out, -self.val + p)

    def __truediv__(self, o):
        return self * o.inv()

    def __pow__(self, n):
        if n == 0:
            return Series.const(1)
        if n < 0:
            return self.inv() ** (-n)
        r = self
        for _ in range(n - 1):
            r = r * self
        return r

    def __repr__(self):
        return (' + '.join(f"({c})*eps^{self.val + k}" for k, c in enumerate(self.c)) or '0') + f" + O(eps^{self.top})"


def rat_to_series(r: Rat, atom_series):
    """atom_series(key) -> Series or None (atom kept as a constant)"""
    cache = {}

    def of_atom(a):
        if a not in cache:
            k = atom_key(a)
            s = atom_series(k)
            cache[a] = s if s is not None else Series.const(Rat.atom(k))
        return cache[a]

    def of_poly(p: Poly):
        tot = Series(0, [], INF)
        for m, c in p.t.items():
            term = Series.const(Rat.const(c))
            for (a, e) in m:
                term = term * (of_atom(a) ** e)
            tot = tot + term
        return tot
    res = Series.const(Rat.const(r.coef))
    for f, e in r.fac:
        res = res * (of_poly(f) ** e)
    return res
