"""Source model of /repo/src/pyfvtool: parsed modules, function and class tables, properties,
class hierarchy, import resolution and dispatch tables.  Pure `ast`; nothing is imported or run."""
from __future__ import annotations
import ast
import os
import hashlib

REPO = os.environ.get('PV_REPO', '/repo')
PKG_DIR = os.path.join(REPO, 'src', 'pyfvtool')

CORE_MODULES = ['mesh', 'utilities', 'cell', 'face', 'boundary', 'diffusion', 'advection',
                'calculus', 'averaging', 'source', 'pdesolver']

MESH_CLASSES = ['Grid1D', 'CylindricalGrid1D', 'SphericalGrid1D',
                'Grid2D', 'CylindricalGrid2D', 'PolarGrid2D',
                'Grid3D', 'CylindricalGrid3D', 'SphericalGrid3D']


class AnalysisError(Exception):
    """The analyser met something outside its declared subset, or an anchor vanished.  -> exit 2"""


class FuncInfo:
    def __init__(self, module, name, node, cls=None):
        self.module = module
        self.name = name
        self.node = node
        self.cls = cls
        self.qualname = (cls + '.' if cls else '') + name
        self.file = os.path.join(PKG_DIR, module + '.py')
        self.decorators = [ast.unparse(d) for d in node.decorator_list]

    @property
    def lineno(self):
        return self.node.lineno

    def loc(self):
        return f"src/pyfvtool/{self.module}.py:{self.node.lineno}"

    def __repr__(self):
        return f"<Func {self.module}.{self.qualname}>"


class ClassInfo:
    def __init__(self, module, name, node):
        self.module = module
        self.name = name
        self.node = node
        self.bases = [ast.unparse(b) for b in node.bases]
        self.methods = {}      # name -> FuncInfo  (plain methods; last non-overload definition)
        self.getters = {}      # property name -> FuncInfo
        self.setters = {}

    def loc(self):
        return f"src/pyfvtool/{self.module}.py:{self.node.lineno}"

    def __repr__(self):
        return f"<Class {self.module}.{self.name}>"


class Module:
    def __init__(self, name, path, src):
        self.name = name
        self.path = path
        self.src = src
        self.tree = ast.parse(src, filename=path)
        self.functions = {}
        self.classes = {}
        self.imports = {}      # local name -> (module, name) for "from .x import y"; or ('ext', dotted)
        self.globals_assigned = {}


_SM_CACHE = {}


def _stamp(pkg_dir):
    try:
        return tuple((fn, os.stat(os.path.join(pkg_dir, fn)).st_mtime_ns, os.stat(os.path.join(pkg_dir, fn)).st_size)
                     for fn in sorted(os.listdir(pkg_dir)) if fn.endswith('.py'))
    except OSError:
        return None


class SourceModel:
    """Parsed once per process and source state: the jobs of a check run in forked workers and each asks for a SourceModel;
    they all get the instance the parent built (same files, same mtimes and sizes), which is read-only after construction."""
    def __new__(cls, pkg_dir=None):
        d = pkg_dir or PKG_DIR
        st = _stamp(d)
        hit = _SM_CACHE.get(d)
        if hit is not None and st is not None and hit[0] == st:
            return hit[1]
        self = super().__new__(cls)
        self._fresh = True
        return self

    def __init__(self, pkg_dir=None):
        if not self.__dict__.pop('_fresh', False):
            return                      # cached instance
        self.pkg_dir = pkg_dir or PKG_DIR
        self.modules = {}
        self.files = []
        self._load()
        st = _stamp(self.pkg_dir)
        if st is not None:
            _SM_CACHE[self.pkg_dir] = (st, self)

    def _load(self):
        if not os.path.isdir(self.pkg_dir):
            raise AnalysisError(f"package directory {self.pkg_dir} not found")
        for fn in sorted(os.listdir(self.pkg_dir)):
            if not fn.endswith('.py'):
                continue
            path = os.path.join(self.pkg_dir, fn)
            name = fn[:-3]
            with open(path, encoding='utf-8') as f:
                src = f.read()
            try:
                m = Module(name, path, src)
            except SyntaxError as e:
                raise AnalysisError(f"cannot parse {path}: {e}")
            self.modules[name] = m
            self.files.append(path)
            self._index(m)
        missing = [c for c in CORE_MODULES if c not in self.modules]
        if missing:
            raise AnalysisError(f"core modules missing from {self.pkg_dir}: {missing}")

    def digest(self):
        h = hashlib.sha256()
        for name in sorted(self.modules):
            h.update(name.encode())
            h.update(self.modules[name].src.encode())
        return h.hexdigest()[:16]

    def _index(self, m: Module):
        for node in m.tree.body:
            if isinstance(node, ast.FunctionDef):
                m.functions[node.name] = FuncInfo(m.name, node.name, node)
            elif isinstance(node, ast.ClassDef):
                ci = ClassInfo(m.name, node.name, node)
                for sub in node.body:
                    if isinstance(sub, ast.FunctionDef):
                        fi = FuncInfo(m.name, sub.name, sub, cls=node.name)
                        decs = fi.decorators
                        if 'overload' in decs or 'typing.overload' in decs:
                            continue
                        if 'property' in decs:
                            ci.getters[sub.name] = fi
                        elif 'cached_property' in decs or 'functools.cached_property' in decs:
                            # computed on first access, then stored on the instance: later accesses return that very object
                            fi.cached_property = True
                            ci.getters[sub.name] = fi
                        elif any(d.endswith('.setter') for d in decs):
                            ci.setters[sub.name] = fi
                        else:
                            ci.methods[sub.name] = fi
                m.classes[node.name] = ci
            elif isinstance(node, ast.ImportFrom):
                for a in node.names:
                    local = a.asname or a.name
                    if node.level >= 1:
                        m.imports[local] = (node.module, a.name)
                    else:
                        m.imports[local] = ('ext', (node.module or '') + '.' + a.name)
            elif isinstance(node, ast.Import):
                for a in node.names:
                    local = a.asname or a.name
                    m.imports[local] = ('ext', a.name)
            elif isinstance(node, ast.Assign):
                for t in node.targets:
                    if isinstance(t, ast.Name):
                        m.globals_assigned[t.id] = node

    # -- lookups
    def module(self, name) -> Module:
        if name not in self.modules:
            raise AnalysisError(f"module {name} not found")
        return self.modules[name]

    def func(self, module, name) -> FuncInfo:
        m = self.module(module)
        if name not in m.functions:
            raise AnalysisError(f"anchor vanished: function {module}.{name}")
        return m.functions[name]

    def has_func(self, module, name):
        return module in self.modules and name in self.modules[module].functions

    def cls(self, name) -> ClassInfo:
        for m in self.modules.values():
            if name in m.classes:
                return m.classes[name]
        raise AnalysisError(f"anchor vanished: class {name}")

    def has_cls(self, name):
        return any(name in m.classes for m in self.modules.values())

    def resolve(self, module, name):
        """resolve a global name used in `module` -> ('func', FuncInfo) | ('class', ClassInfo) |
        ('ext', dotted) | None"""
        m = self.module(module)
        if name in m.functions:
            return ('func', m.functions[name])
        if name in m.classes:
            return ('class', m.classes[name])
        if name in m.imports:
            tgt = m.imports[name]
            if tgt[0] == 'ext':
                return ('ext', tgt[1])
            mod, nm = tgt
            if mod in self.modules:
                return self.resolve(mod, nm)
            return ('ext', f"{mod}.{nm}")
        if name in m.globals_assigned:
            return ('global', m.globals_assigned[name])
        return None

    def mro(self, clsname):
        """linearised base list (single inheritance in this code base)"""
        out = []
        cur = clsname
        seen = set()
        while cur and cur not in seen and self.has_cls(cur):
            seen.add(cur)
            out.append(cur)
            ci = self.cls(cur)
            nxt = None
            for b in ci.bases:
                b = b.split('.')[-1]
                if self.has_cls(b):
                    nxt = b
                    break
            cur = nxt
        return out

    def is_subclass(self, a, b):
        return b in self.mro(a)

    def find_method(self, clsname, meth):
        for c in self.mro(clsname):
            ci = self.cls(c)
            if meth in ci.methods:
                return ci.methods[meth]
        return None

    def find_getter(self, clsname, name):
        for c in self.mro(clsname):
            ci = self.cls(c)
            if name in ci.getters:
                return ci.getters[name]
        return None

    def find_setter(self, clsname, name):
        for c in self.mro(clsname):
            ci = self.cls(c)
            if name in ci.setters:
                return ci.setters[name]
        return None

    def all_functions(self):
        for m in self.modules.values():
            for f in m.functions.values():
                yield f
            for c in m.classes.values():
                for f in list(c.methods.values()) + list(c.getters.values()) + list(c.setters.values()):
                    yield f


# ----------------------------------------------------------------------------------------------
# dispatch tables: evaluate an if/elif chain over the type of <param>.domain for every mesh class
# ----------------------------------------------------------------------------------------------
def _type_test(test, sm: SourceModel, clsname, subject_hint=None):
    """Evaluate a test made of  type(X) is C / issubclass(type(X), C) / isinstance(X, C)
    combined with or/and/not, for X of concrete class `clsname`.  Returns bool or None (not a type test)."""
    if isinstance(test, ast.BoolOp):
        vals = [_type_test(v, sm, clsname) for v in test.values]
        if any(v is None for v in vals):
            return None
        return any(vals) if isinstance(test.op, ast.Or) else all(vals)
    if isinstance(test, ast.UnaryOp) and isinstance(test.op, ast.Not):
        v = _type_test(test.operand, sm, clsname)
        return None if v is None else (not v)
    if isinstance(test, ast.Compare) and len(test.ops) == 1 and isinstance(test.ops[0], (ast.Is, ast.Eq, ast.IsNot, ast.NotEq)):
        l, r = test.left, test.comparators[0]
        if isinstance(l, ast.Call) and isinstance(l.func, ast.Name) and l.func.id == 'type' and isinstance(r, ast.Name):
            if r.id in MESH_CLASSES or sm.has_cls(r.id):
                res = (clsname == r.id)
                return (not res) if isinstance(test.ops[0], (ast.IsNot, ast.NotEq)) else res
        return None
    if isinstance(test, ast.Compare) and len(test.ops) == 1 and isinstance(test.ops[0], (ast.In, ast.NotIn)):
        # type(X) in (A, B)
        l, r = test.left, test.comparators[0]
        if isinstance(l, ast.Call) and isinstance(l.func, ast.Name) and l.func.id == 'type' and isinstance(r, (ast.Tuple, ast.List, ast.Set)) \
                and all(isinstance(x, ast.Name) and sm.has_cls(x.id) for x in r.elts):
            res = clsname in {x.id for x in r.elts}
            return (not res) if isinstance(test.ops[0], ast.NotIn) else res
        return None
    if isinstance(test, ast.Call) and isinstance(test.func, ast.Name):
        def names(b):
            if isinstance(b, ast.Name) and sm.has_cls(b.id):
                return [b.id]
            if isinstance(b, ast.Tuple) and b.elts and all(isinstance(x, ast.Name) and sm.has_cls(x.id) for x in b.elts):
                return [x.id for x in b.elts]
            return None
        if test.func.id == 'issubclass' and len(test.args) == 2:
            a, b = test.args
            if isinstance(a, ast.Call) and isinstance(a.func, ast.Name) and a.func.id == 'type' and names(b):
                return any(sm.is_subclass(clsname, n) for n in names(b))
        if test.func.id == 'isinstance' and len(test.args) == 2 and names(test.args[1]):
            return any(sm.is_subclass(clsname, n) for n in names(test.args[1]))
    return None


def dispatch_table(sm: SourceModel, fi: FuncInfo):
    """For a dispatcher function: {mesh class: (branch body statements, branch lineno)}.
    The chain is the first top-level If whose test is a type test."""
    chain = None
    for st in fi.node.body:
        if isinstance(st, ast.If) and _type_test(st.test, sm, 'Grid1D') is not None:
            chain = st
            break
    if chain is None:
        raise AnalysisError(f"{fi.qualname}: no type-dispatch chain found at {fi.loc()}")
    table = {}
    for c in MESH_CLASSES:
        node = chain
        chosen = None
        while True:
            v = _type_test(node.test, sm, c)
            if v is None:
                raise AnalysisError(f"{fi.qualname}: unsupported dispatch test {ast.unparse(node.test)} at {fi.loc()}")
            if v:
                chosen = (node.body, node.lineno)
                break
            if len(node.orelse) == 1 and isinstance(node.orelse[0], ast.If):
                node = node.orelse[0]
                continue
            chosen = (node.orelse, node.orelse[0].lineno if node.orelse else None)
            break
        if not chosen[0] and fi.node.body[-1] is not chain:
            # the class falls through the chain and the function goes on: the dispatch is not (only) this chain
            raise AnalysisError(f"{fi.qualname}: {c} falls through the type-dispatch chain and statements follow it at {fi.loc()}")
        table[c] = chosen
    return table


def branch_callee(body):
    """If the branch is `return f(...)[k]` or `X = f(...)` / `a, b = f(...)`: return (fname, call node, proj)"""
    for st in body:
        val = None
        if isinstance(st, ast.Return):
            val = st.value
        elif isinstance(st, ast.Assign):
            val = st.value
        if val is None:
            continue
        proj = None
        if isinstance(val, ast.Subscript) and isinstance(val.value, ast.Call):
            try:
                proj = ast.literal_eval(val.slice)
            except Exception:
                proj = None
            val = val.value
        if isinstance(val, ast.Call) and isinstance(val.func, ast.Name):
            return val.func.id, val, proj
    return None, None, None
