"""Transformations of extracted expressions under grid symmetries: atoms are renamed / re-indexed recursively
(also inside indicator and opaque-function arguments)."""
from __future__ import annotations
from .alg import Rat, Poly, atom_key, ind
from .arrays import opaque_fn, R, ZERO, ONE
from .model import AX

FACEVARS = {'D', 'u', 'uu', 'Fv'}
CELLVARS = {'phi', 'beta', 'gamma', 'alphav', 'sol', 'rhs'}
SCALARS = {'pi', 'dt', 'alpha', 'lambda', 'cconst', 'L'}


def deep_map(r: Rat, fn):
    """fn(key, rec) -> Rat or None ; rec transforms a nested Rat"""
    cache = {}

    def rec(x: Rat) -> Rat:
        mp = {}
        for a in x.atoms():
            if a in cache:
                v = cache[a]
            else:
                k = atom_key(a)
                v = None
                if isinstance(k, tuple) and k:
                    h = k[0]
                    if h == 'ind':
                        v = ind(k[1], rec(k[2]))
                    elif h == 'fn':
                        v = opaque_fn(k[1], rec(k[2]))
                    elif h in ('fnN', 'fn2'):
                        v = Rat.atom((h, k[1]) + tuple(rec(z) if isinstance(z, Rat) else z for z in k[2:]))
                    elif h in ('pow', 'powsym'):
                        v = Rat.atom((h,) + tuple(rec(z) if isinstance(z, Rat) else z for z in k[1:]))
                    else:
                        v = fn(k, rec)
                cache[a] = v
            if v is not None:
                mp[a] = v
        return x.subs(mp) if mp else x
    return rec(r)


def axis_permutation(perm):
    """perm: {'x':'y', 'y':'x', 'z':'z'} ; returns fn for deep_map"""
    pos = {AX.index(a): AX.index(b) for a, b in perm.items()}

    def permute(idx, rec):
        n = len(idx)
        out = [None] * n
        for k in range(n):
            out[pos.get(k, k)] = rec(idx[k]) if isinstance(idx[k], Rat) else idx[k]
        if any(o is None for o in out):
            raise ValueError("axis permutation does not fit the index arity")
        return tuple(out)

    def fn(k, rec):
        h = k[0]
        if h in ('t', 'N'):
            return Rat.atom((h, perm.get(k[1], k[1])))
        if h in ('f', 'L') and len(k) >= 2:
            return Rat.atom((h, perm.get(k[1], k[1])) + tuple(rec(z) if isinstance(z, Rat) else z for z in k[2:]))
        if h in FACEVARS:
            return Rat.atom((h, perm.get(k[1], k[1])) + permute(k[2:], rec))
        if h in CELLVARS:
            return Rat.atom((h,) + permute(k[1:], rec))
        if h in SCALARS or h in ('z', 'incr', 'reduce', 'ctl'):
            return None
        if h == 'bc':
            raise ValueError("bc atoms are permuted by the caller")
        raise ValueError(f"axis_permutation: unknown atom {k!r}")
    return fn


def drop_axis(axis, nd):
    """remove the index of `axis` (0-based) from every coefficient / field atom (embedding nd -> nd-1);
    remaining axes keep their names except that axes above `axis` move down when rename=True"""
    def fn(k, rec):
        h = k[0]
        if h in FACEVARS:
            idx = k[2:]
            if len(idx) != nd:
                return None
            return Rat.atom((h, k[1]) + tuple(z for j, z in enumerate(idx) if j != axis))
        if h in CELLVARS:
            idx = k[1:]
            if len(idx) != nd:
                return None
            return Rat.atom((h,) + tuple(z for j, z in enumerate(idx) if j != axis))
        return None
    return fn


def rename_axes(perm):
    """rename axis letters only (no index permutation): used after drop_axis, e.g. Cyl3D z-axis -> Cyl2D y-axis"""
    def fn(k, rec):
        h = k[0]
        if h in ('t', 'N', 'f', 'L'):
            return Rat.atom((h, perm.get(k[1], k[1])) + tuple(rec(z) if isinstance(z, Rat) else z for z in k[2:]))
        if h in FACEVARS:
            return Rat.atom((h, perm.get(k[1], k[1])) + tuple(rec(z) if isinstance(z, Rat) else z for z in k[2:]))
        if h in CELLVARS:
            return Rat.atom((h,) + tuple(rec(z) if isinstance(z, Rat) else z for z in k[1:]))
        return None
    return fn


def mirror(axis, N):
    """reflection of axis `axis` (0-based) about the domain centre: cell i -> N+1-i, face i -> N-i, f -> -f, normal
    component of face vectors changes sign"""
    ax = AX[axis]

    def fn(k, rec):
        h = k[0]
        if h == 'f' and k[1] == ax:
            return -Rat.atom(('f', ax, N - rec(k[2])))
        if h == 'f':
            return Rat.atom((h, k[1], rec(k[2])))
        if h in FACEVARS:
            idx = [rec(z) for z in k[2:]]
            if k[1] == ax:
                idx[axis] = N - idx[axis]
                sign = -1 if h in ('u', 'uu', 'Fv') else 1
                return sign * Rat.atom((h, ax) + tuple(idx))
            idx[axis] = N - 1 - idx[axis]
            return Rat.atom((h, k[1]) + tuple(idx))
        if h in CELLVARS:
            idx = [rec(z) for z in k[1:]]
            idx[axis] = N + 1 - idx[axis]
            return Rat.atom((h,) + tuple(idx))
        if h == 't' and k[1] == ax:
            return None
        return None
    return fn
