"""Units domain: dimension vectors over (L, T, K, X) for the atoms of extracted expressions; a Rat is
homogeneous iff every polynomial factor has monomials of one common dimension."""
from __future__ import annotations
from fractions import Fraction
from .alg import Rat, Poly, atom_key
from .srcmodel import AnalysisError

ZERO4 = (0, 0, 0, 0)
L = (1, 0, 0, 0)
T = (0, 1, 0, 0)
K = (0, 0, 1, 0)
X = (0, 0, 0, 1)


def dadd(a, b):
    return tuple(x + y for x, y in zip(a, b))


def dscale(a, e):
    return tuple(x * e for x in a)


def dfmt(d):
    names = 'LTKX'
    parts = [f"{n}^{e}" if e != 1 else n for n, e in zip(names, d) if e != 0]
    return '*'.join(parts) or '1'


class Inhomogeneous(Exception):
    def __init__(self, msg):
        super().__init__(msg)
        self.msg = msg


class UnitSystem:
    def __init__(self, axis_is_length, roles):
        """axis_is_length: {'x': bool, 'y': bool, 'z': bool}; roles: {atom head: dimension}"""
        self.axlen = axis_is_length
        self.roles = roles

    def atom_dim(self, key):
        if not isinstance(key, tuple) or not key:
            return ZERO4
        h = key[0]
        if h in ('f', 'L'):
            return L if self.axlen.get(key[1], True) else ZERO4
        if h in ('pi', 'N', 't', 'z', 'incr', 'lambda'):
            return ZERO4
        if h == 'ind':
            self.rat_dim(key[2])            # argument must itself be homogeneous
            return ZERO4
        if h == 'fn':
            name, arg = key[1], key[2]
            d = self.rat_dim(arg)
            if name in ('sin', 'cos', 'tan', 'exp', 'log', 'FL'):
                if d != ZERO4:
                    raise Inhomogeneous(f"{name}() of a quantity of dimension {dfmt(d)}")
                return ZERO4
            if name in ('abs', 'fsign', 'sign'):
                return d if name != 'sign' else ZERO4
            return d
        if h == 'fn2':
            d1, d2 = self.rat_dim(key[2]), self.rat_dim(key[3])
            if d1 != d2 and not key[2].is_zero() and not key[3].is_zero():
                raise Inhomogeneous(f"{key[1]}() of quantities of dimensions {dfmt(d1)} and {dfmt(d2)}")
            return d1
        if h == 'powsym':
            raise Inhomogeneous("exponent that is not a literal number (a ** b with symbolic b)")
        if h == 'pow':
            d = self.rat_dim(key[1])
            return dscale(d, key[2])
        if h == 'bc':
            return self.roles.get(('bc', key[2]), ZERO4)
        if h == 'reduce':
            return self.roles.get('reduce', ZERO4)
        if h in self.roles:
            return self.roles[h]
        raise AnalysisError(f"units: no role for atom {key!r}")

    def poly_dim(self, p: Poly):
        dim = None
        for m, c in p.t.items():
            d = ZERO4
            for (a, e) in m:
                d = dadd(d, dscale(self.atom_dim(atom_key(a)), e))
            if dim is None:
                dim = d
            elif d != dim:
                from .alg import fmt_poly
                raise Inhomogeneous(f"sum of terms of dimensions {dfmt(dim)} and {dfmt(d)} in {fmt_poly(p, 6)}")
        return dim if dim is not None else ZERO4

    def rat_dim(self, r: Rat):
        if r.coef == 0:
            return None if False else ZERO4
        d = ZERO4
        for f, e in r.fac:
            d = dadd(d, dscale(self.poly_dim(f), e))
        return d
