#!/venv/bin/python
"""Self-test of the checkers, both ways: each mutant is a one-site edit of a scratch copy of /repo/src/pyfvtool
(outside /repo and /verif, removed afterwards) that must make the named check report a VIOLATION mentioning the
named construct; each twin is a behaviour-preserving rewrite that must keep the check silent (exit 0).
    selftest/run.py [--only C05] [--jobs 8]
Development-time tool; not part of any registered command."""
import os, sys, shutil, subprocess, tempfile, json, argparse, re
from concurrent.futures import ThreadPoolExecutor

VERIF = os.path.dirname(os.path.dirname(os.path.abspath(__file__)))
REPO_SRC = '/repo/src/pyfvtool'

# (id, property, file, old, new, occurrence (0-based) or 'all', expected construct substring | None for twins)
M = []


def mut(mid, prop, file, old, new, expect, occ=0):
    M.append(dict(id=mid, prop=prop, file=file, old=old, new=new, occ=occ, expect=expect))


# ---- C01 / C05 / C06 / C17 : stencil edits
mut('c01-cyl2d-rp', 'C01', 'diffusion.py', "    De = rf[1:Nx+1]*D._xvalue[1:Nx+1, :] / \\\n        (rp*dx[1:Nx+1]*DX[1:Nx+1])[:, np.newaxis]", "    De = rp[:, np.newaxis]*D._xvalue[1:Nx+1, :] / \\\n        (rp*dx[1:Nx+1]*DX[1:Nx+1])[:, np.newaxis]", 'diffusionTermCylindrical2D/axis=x')
mut('c01-3d-dz', 'C01', 'diffusion.py', "Db = D._zvalue[:, :, 0:Nz]/(dz[0:Nz]*DZ[1:Nz+1])[np.newaxis, np.newaxis, :]", "Db = D._zvalue[:, :, 0:Nz]/(dz[1:Nz+1]*DZ[1:Nz+1])[np.newaxis, np.newaxis, :]", 'diffusionTerm3D/axis=z')
mut('c01-up2d-halving', 'C01', 'advection.py', "    AS[:, 0] = AS[:, 0]/2.0\n", "    pass\n", 'convectionUpwindTerm2D/axis=y')
mut('c05-up2d-halving', 'C05', 'advection.py', "    AS[:, 0] = AS[:, 0]/2.0\n", "    pass\n", 'convectionUpwindTerm2D')
# dropping r_p from the theta-divergence keeps the two theta-neighbours' contributions equal and opposite: conservation (C01) is
# NOT broken by it (silent there, correctly); consistency (C02), the chain identity (C05) and units (C17) are
mut('c01-divpolar-silent', 'C01', 'calculus.py', "    div_y = (Fn-Fs)/(dtheta*rp)\n", "    div_y = (Fn-Fs)/(dtheta)\n", None)
mut('c02-divpolar', 'C02', 'calculus.py', "    div_y = (Fn-Fs)/(dtheta*rp)\n", "    div_y = (Fn-Fs)/(dtheta)\n", 'divergenceTermPolar2D')
mut('c05-divpolar', 'C05', 'calculus.py', "    div_y = (Fn-Fs)/(dtheta*rp)\n", "    div_y = (Fn-Fs)/(dtheta)\n", 'PolarGrid2D')
mut('c17-divpolar', 'C17', 'calculus.py', "    div_y = (Fn-Fs)/(dtheta*rp)\n", "    div_y = (Fn-Fs)/(dtheta)\n", 'divergenceTermPolar2D')
mut('c01-constsrc', 'C01', 'source.py', "RHS[row_index] = gamma._value[1:-1, 1:-1].ravel()", "RHS[row_index] = gamma._value[0:-2, 1:-1].ravel()", 'constantSourceTerm')
mut('c10-cyl2d-pi', 'C10', 'mesh.py', "        A = np.pi * np.abs(R2_outer - R2_inner)\n        V = A[:, np.newaxis] * self.cellsize.z[np.newaxis, 1:-1] \n", "        A = np.abs(R2_outer - R2_inner)\n        V = A[:, np.newaxis] * self.cellsize.z[np.newaxis, 1:-1] \n", 'CylindricalGrid2D._getCellVolumes')
mut('c01-cyl2d-pi-silent', 'C01', 'mesh.py', "        A = np.pi * np.abs(R2_outer - R2_inner)\n        V = A[:, np.newaxis] * self.cellsize.z[np.newaxis, 1:-1] \n", "        A = np.abs(R2_outer - R2_inner)\n        V = A[:, np.newaxis] * self.cellsize.z[np.newaxis, 1:-1] \n", None)
mut('c02-grad-sph', 'C02', 'calculus.py', "phi._value[1:-1, 1:-1, 0:-1])/(dz[np.newaxis,np.newaxis,:]*rp*np.sin(thetap)))", "phi._value[1:-1, 1:-1, 0:-1])/(dz[np.newaxis,np.newaxis,:]*rp))", 'gradientTerm[SphericalGrid3D]/axis=z')
mut('c02-diff-sph-metric', 'C02', 'diffusion.py', "    De = rf[1:Nx+1,:,:]**2*D._xvalue[1:Nx+1, :, :] / (rp**2*dx[1:Nx+1,:,:] * DX[1:Nx+1,:,:])", "    De = rf[1:Nx+1,:,:]*D._xvalue[1:Nx+1, :, :] / (rp*dx[1:Nx+1,:,:] * DX[1:Nx+1,:,:])", 'diffusionTermSpherical3D')
mut('c05-conv3d-dzb', 'C05', 'advection.py', "    wf = u._zvalue[:, :, 1:Nz+1]/(DZp+DZf)\n    wb = u._zvalue[:, :, 0:Nz]/(DZp+DZb)\n    # calculate the coefficients for the internal cells\n    AE = ue.ravel()\n    AW = -uw.ravel()\n    AN = vn.ravel()\n    AS = -vs.ravel()\n    AF = wf.ravel()\n    AB = -wb.ravel()\n    APx = ((ue*DXe-uw*DXw)/DXp).ravel()", "    wf = u._zvalue[:, :, 1:Nz+1]/(DZp+DZb)\n    wb = u._zvalue[:, :, 0:Nz]/(DZp+DZb)\n    # calculate the coefficients for the internal cells\n    AE = ue.ravel()\n    AW = -uw.ravel()\n    AN = vn.ravel()\n    AS = -vs.ravel()\n    AF = wf.ravel()\n    AB = -wb.ravel()\n    APx = ((ue*DXe-uw*DXw)/DXp).ravel()", 'convectionTerm3D')
mut('c08-conv3d-dzb', 'C08', 'advection.py', "    wf = u._zvalue[:, :, 1:Nz+1]/(DZp+DZf)\n    wb = u._zvalue[:, :, 0:Nz]/(DZp+DZb)\n    # calculate the coefficients for the internal cells\n    AE = ue.ravel()\n    AW = -uw.ravel()\n    AN = vn.ravel()\n    AS = -vs.ravel()\n    AF = wf.ravel()\n    AB = -wb.ravel()\n    APx = ((ue*DXe-uw*DXw)/DXp).ravel()", "    wf = u._zvalue[:, :, 1:Nz+1]/(DZp+DZb)\n    wb = u._zvalue[:, :, 0:Nz]/(DZp+DZb)\n    # calculate the coefficients for the internal cells\n    AE = ue.ravel()\n    AW = -uw.ravel()\n    AN = vn.ravel()\n    AS = -vs.ravel()\n    AF = wf.ravel()\n    AB = -wb.ravel()\n    APx = ((ue*DXe-uw*DXw)/DXp).ravel()", 'convectionTerm3D')
mut('c06-diff2d-apy', 'C06', 'diffusion.py', "    APy = -(AN+AS)\n", "    APy = -(AN-AS)\n", 'diffusionTerm2D')
mut('c07-up1d-max', 'C07', 'advection.py', "    AE = ue_min/DXp\n    AW = -uw_max/DXp\n    APx = (ue_max-uw_min)/DXp\n    # correct for the cells next to the boundary\n    # Left boundary:\n    APx[0] = APx[0]-uw_max[0]/(2.0*DXp[0])", "    AE = ue_max/DXp\n    AW = -uw_max/DXp\n    APx = (ue_max-uw_min)/DXp\n    # correct for the cells next to the boundary\n    # Left boundary:\n    APx[0] = APx[0]-uw_max[0]/(2.0*DXp[0])", 'convectionUpwindTerm1D')
mut('c08-uppolar-rp', 'C08', 'advection.py', "    AN = vn_min/(rp*DYp)\n    AS = -vs_max/(rp*DYp)\n    APx = (re*ue_max-rw*uw_min)/(DXp*rp)\n    APy = (vn_max-vs_min)/(DYp*rp)", "    AN = vn_min/(DYp)\n    AS = -vs_max/(rp*DYp)\n    APx = (re*ue_max-rw*uw_min)/(DXp*rp)\n    APy = (vn_max-vs_min)/(DYp*rp)", 'convectionUpwindTermPolar2D')
mut('c17-difcyl1d-dx', 'C17', 'diffusion.py', "    De = rf[1:Nx+1]*Dx[1:Nx+1]/(rp*dx[1:Nx+1]*DX[1:Nx+1])\n", "    De = rf[1:Nx+1]*Dx[1:Nx+1]/(rp*DX[1:Nx+1])\n", 'diffusionTermCylindrical1D')
# ---- C03
mut('c03-ghost2d-sign', 'C03', 'boundary.py', "phiBC[i,j]= (BC.left.c-phi[0,:]*(BC.left.a/dx_1+BC.left.b/2))/(-BC.left.a/dx_1+BC.left.b/2)\n    else:\n        # Right boundary\n        i = Nx+1\n        j = int_range(1, Ny)\n        phiBC[i,j]= phi[0,:]\n\n        # Left boundary\n        i = 0\n        phiBC[i,j]= phi[-1,:]\n    return phiBC\n\n\ndef cellValuesWithBoundaries3D", "phiBC[i,j]= (BC.left.c-phi[0,:]*(BC.left.a/dx_1+BC.left.b/2))/(BC.left.a/dx_1+BC.left.b/2)\n    else:\n        # Right boundary\n        i = Nx+1\n        j = int_range(1, Ny)\n        phiBC[i,j]= phi[0,:]\n\n        # Left boundary\n        i = 0\n        phiBC[i,j]= phi[-1,:]\n    return phiBC\n\n\ndef cellValuesWithBoundaries3D", 'cellValuesWithBoundaries2D/face=left')
mut('c03-polar-top-metric', 'C03', 'boundary.py', "        s[q] = (BC.top.b/2 + BC.top.a/(dy_end*rp))\n        q = q[-1]+i\n        ii[q] = G[i,j]  \n        jj[q] = G[i,j-1] \n        s[q] = (BC.top.b/2 - BC.top.a/(dy_end*rp))\n", "        s[q] = (BC.top.b/2 + BC.top.a/(dy_end))\n        q = q[-1]+i\n        ii[q] = G[i,j]  \n        jj[q] = G[i,j-1] \n        s[q] = (BC.top.b/2 - BC.top.a/(dy_end))\n", 'boundaryConditionsTermPolar2D/face=top')
mut('c03-3d-periodic-swap', 'C03', 'boundary.py', "        phiBC[i,j,k]= phi[:,0,:][:, np.newaxis, :]\n\n        # Bottom boundary\n        j=0\n        i = i_ind\n        k = k_ind\n        phiBC[i,j,k]= phi[:,-1,:][:, np.newaxis, :]\n\n    if (not BC.left.periodic) and (not BC.right.periodic):\n        # Right boundary\n        i = Nx+1\n        j = j_ind\n        k = k_ind\n        phiBC[i,j,k]= (BC.right.c-phi[-1,:,:]*(-BC.right.a/dx_end+BC.right.b/2))/(BC.right.a/dx_end+BC.right.b/2)\n", "        phiBC[i,j,k]= phi[:,-1,:][:, np.newaxis, :]\n\n        # Bottom boundary\n        j=0\n        i = i_ind\n        k = k_ind\n        phiBC[i,j,k]= phi[:,0,:][:, np.newaxis, :]\n\n    if (not BC.left.periodic) and (not BC.right.periodic):\n        # Right boundary\n        i = Nx+1\n        j = j_ind\n        k = k_ind\n        phiBC[i,j,k]= (BC.right.c-phi[-1,:,:]*(-BC.right.a/dx_end+BC.right.b/2))/(BC.right.a/dx_end+BC.right.b/2)\n", 'cellValuesWithBoundaries3D')
mut('c03-solvepde-noapply', 'C03', 'pdesolver.py', "    phi._value = TrackedArray(np.reshape(phi_new_values, phi.domain.dims+2))\n    phi.apply_BCs()\n", "    phi._value = TrackedArray(np.reshape(phi_new_values, phi.domain.dims+2))\n", 'solvePDE')
mut('c04-solvepde-noapply', 'C04', 'pdesolver.py', "    phi._value = TrackedArray(np.reshape(phi_new_values, phi.domain.dims+2))\n    phi.apply_BCs()\n", "    phi._value = TrackedArray(np.reshape(phi_new_values, phi.domain.dims+2))\n", 'solvePDE')
# ---- C04
# dropping the protective copy of the cached boundary RHS is behaviour-preserving: solvePDE ends in apply_BCs(), which rebuilds
# the cache (the first versions of C04.S1 / C15.Z2 demanded "no write into the cache" and flagged it: a false alarm, see DESIGN 9.5)
mut('twin-c04-rhs-nocopy', 'C04', 'pdesolver.py', "    RHS = RHSbc.copy() # need to copy", "    RHS = RHSbc # need to copy", None)
mut('twin-c15-rhs-nocopy', 'C15', 'pdesolver.py', "    RHS = RHSbc.copy() # need to copy", "    RHS = RHSbc # need to copy", None)
M.append(dict(id='c04-rhs-nocopy-noapply', prop='C04', patch=os.path.join(VERIF, 'selftest', 'mutants', 'c04-rhs-nocopy-noapply.diff'), expect='pdesolver.solvePDE'))
mut('c04-m-nocopy-twin', 'C04', 'pdesolver.py', "    M = Mbc.copy() # need to copy", "    M = Mbc # need to copy", None)
mut('c04-order-f', 'C04', 'pdesolver.py', "TrackedArray(np.reshape(phi_new_values, phi.domain.dims+2))", "TrackedArray(np.reshape(phi_new_values, phi.domain.dims+2, order='F'))", 'solvePDE')
mut('c04-minus', 'C04', 'pdesolver.py', "        elif term.ndim == 2:\n            M += term", "        elif term.ndim == 2:\n            M -= term", 'solvePDE')
mut('c04-twice', 'C04', 'pdesolver.py', "        elif term.ndim == 1:\n            RHS += term", "        elif term.ndim == 1:\n            RHS += term\n            RHS += term", 'solvePDE')
# ---- C09
mut('c09-a-setter-rebind', 'C09', 'boundary.py', "    @a.setter\n    def a(self, val):\n        self._a[:] = val\n", "    @a.setter\n    def a(self, val):\n        self._a = TrackedArray(np.asarray(val)*np.ones(self._a.shape))\n", 'BoundaryFace.a')
mut('c09-guard-bcs', 'C09', 'pdesolver.py', "    elif phi.BCs.modified or phi.value.modified:\n        phi.apply_BCs()\n    \n    # Construct BCs Term", "    elif phi.value.modified:\n        phi.apply_BCs()\n    \n    # Construct BCs Term", 'pdesolver.solvePDE/BCs.modified=True')
mut('c09-applybcs-nocache', 'C09', 'cell.py', "        if self.BCsTerm_precalc:\n            self._BCsTerm = boundaryConditionsTerm(self.BCs)\n \n        self.BCs.modified = False", "        self.BCs.modified = False", 'apply_BCs')
mut('c09-update-value-flag', 'C09', 'cell.py', "        np.copyto(self._value, new_cell._value)\n        self._value.modified = True\n", "        np.copyto(self._value, new_cell._value)\n", 'update_value')
mut('c09-uncond-twin', 'C09', 'pdesolver.py', "    elif phi.BCs.modified or phi.value.modified:\n        phi.apply_BCs()\n    \n    # Construct BCs Term", "    else:\n        phi.apply_BCs()\n    \n    # Construct BCs Term", None)
mut('c09-tracked-base', 'C09', 'utilities.py', "        self._modified = True\n        if self.base is not None and isinstance(self.base, TrackedArray):\n            self.base._modified = True\n", "        self._modified = True\n", 'TrackedArray.__setitem__')
mut('c09-periodic-setter', 'C09', 'boundary.py', "    def periodic(self, val):\n        self.modified = True\n        self._periodic = bool(val)", "    def periodic(self, val):\n        self._periodic = bool(val)", 'periodic')
# ---- C10
mut('c10-2d-centres', 'C10', 'mesh.py', "                int_range(1, Ny)*dy-dy/2,\n                np.array([0.0]),\n                coordlabels)\n            face_location = FaceLocation(\n                int_range(0, Nx)*dx,\n                int_range(0, Ny)*dy,\n                np.array([0.0]),", "                int_range(1, Ny)*dy-dy,\n                np.array([0.0]),\n                coordlabels)\n            face_location = FaceLocation(\n                int_range(0, Nx)*dx,\n                int_range(0, Ny)*dy,\n                np.array([0.0]),", '/axis=y/cellcenters')
mut('c10-ghostsize', 'C10', 'mesh.py', "                          facelocation[-1]-facelocation[-2]])\n\n    def _getCellVolumes", "                          facelocation[-2]-facelocation[-3]])\n\n    def _getCellVolumes", 'ghostsize-high')
# ---- C11
mut('c11-linmean3d-z', 'C11', 'averaging.py', "                     (dz[:,:,1:]*phi._value[1:-1, 1:-1, 0:-1]+dz[:,:,0:-1] *\n                      phi._value[1:-1, 1:-1, 1:])/(dz[:,:,0:-1]+dz[:,:,1:]))", "                     (dz[:,:,0:-1]*phi._value[1:-1, 1:-1, 0:-1]+dz[:,:,1:] *\n                      phi._value[1:-1, 1:-1, 1:])/(dz[:,:,0:-1]+dz[:,:,1:]))", 'linearMean[3D]/axis=z')
mut('c11-upwind2d-support', 'C11', 'averaging.py', "        phi_tmp[:,-1] = 0.5*(phi._value[:,-1]+phi._value[:,-2])\n        return FaceVariable(phi.domain,\n            (ux>0.0)*phi_tmp[0:-1,1:-1]+", "        phi_tmp[:,-1] = 0.5*(phi._value[:,-1]+phi._value[:,-3])\n        return FaceVariable(phi.domain,\n            (ux>0.0)*phi_tmp[0:-1,1:-1]+", 'upwindMean[2D]/axis=y')
# ---- C12
mut('c12-dt', 'C12', 'source.py', "    return linearSourceTerm(a/dt), constantSourceTerm(a*phi/dt)", "    return linearSourceTerm(a/dt), constantSourceTerm(a*phi*dt)", 'transientTerm')
mut('c17-dt', 'C17', 'source.py', "    return linearSourceTerm(a/dt), constantSourceTerm(a*phi/dt)", "    return linearSourceTerm(a/dt), constantSourceTerm(a*phi*dt)", 'transientTerm')
mut('c12-explicit-inplace', 'C12', 'pdesolver.py', "    phi = CellVariable(phi_old.domain, 0.0, phi_old.BCs, \n                       BCsTerm_precalc = False)\n    phi._value = TrackedArray(x)\n    phi.apply_BCs()\n    return phi", "    phi_old._value = TrackedArray(x)\n    phi_old.apply_BCs()\n    return phi_old", 'solveExplicitPDE')
# ---- C13
mut('c13-koren', 'C13', 'utilities.py', "np.minimum((1.0+2.0*r)/3.0, 2.0)", "np.minimum((2.0+r)/3.0, 2.0)", 'fluxLimiter[Koren]')
mut('c13-hquick-guard', 'C13', 'utilities.py', "(2.0*(r+np.abs(r))/((r+3.0)+eps*(r==-3.0)))", "(2.0*(r+np.abs(r))/((r+3.0)))", 'fluxLimiter[HQUICK]')
mut('c13-minmod-python-min', 'C13', 'utilities.py', "return ((r>0.0)*np.minimum(r,1.0))", "return ((r>0.0)*min(r,1.0))", 'fluxLimiter[MinMod]')
mut('c13-fsign-unguarded', 'C13', 'advection.py', "    rY_p = dphiY_p[:, 0:-1]/_fsign(dphiY_p[:, 1:])\n    psiY_p[:, 1:Ny+1] = 0.5*FL(rY_p)*(phi._value[1:Nx+1, 2:Ny+2] -\n                                      phi._value[1:Nx+1, 1:Ny+1])\n    psiY_p[:, 0] = 0.0  # Bottom boundary will be handled in the main matrix\n    # calculate the upstream to downstream gradient ratios for u<0 (- ratio)\n    # x direction\n    rX_m = dphiX_p[1:, :]/_fsign(dphiX_p[0:-1, :])\n    psiX_m[0:Nx, :] = 0.5*FL(rX_m)*(phi._value[0:Nx, 1:Ny+1] -\n                                    phi._value[1:Nx+1, 1:Ny+1])\n    psiX_m[-1, :] = 0.0  # right boundary\n    # y direction\n    rY_m = dphiY_p[:, 1:]/_fsign(dphiY_p[:, 0:-1])\n    psiY_m[:, 0:Ny] = 0.5*FL(rY_m)*(phi._value[1:Nx+1, 0:Ny] -\n                                    phi._value[1:Nx+1, 1:Ny+1])\n    psiY_m[:, -1] = 0.0  # top boundary will be handled in the main matrix\n    # find the velocity direction for the upwind scheme\n    ux_min, ux_max, uy_min, uy_max = _upwind_min_max(u, u_upwind)\n    ue_min, ue_max = ux_min[1:Nx+1, :], ux_max[1:Nx+1, :]\n    uw_min, uw_max = ux_min[0:Nx, :], ux_max[0:Nx, :]\n    vn_min, vn_max = uy_min[:, 1:Ny+1], uy_max[:, 1:Ny+1]\n    vs_min, vs_max = uy_min[:, 0:Ny], uy_max[:, 0:Ny]\n\n    # calculate the TVD correction term", "    rY_p = dphiY_p[:, 0:-1]/(dphiY_p[:, 1:])\n    psiY_p[:, 1:Ny+1] = 0.5*FL(rY_p)*(phi._value[1:Nx+1, 2:Ny+2] -\n                                      phi._value[1:Nx+1, 1:Ny+1])\n    psiY_p[:, 0] = 0.0  # Bottom boundary will be handled in the main matrix\n    # calculate the upstream to downstream gradient ratios for u<0 (- ratio)\n    # x direction\n    rX_m = dphiX_p[1:, :]/_fsign(dphiX_p[0:-1, :])\n    psiX_m[0:Nx, :] = 0.5*FL(rX_m)*(phi._value[0:Nx, 1:Ny+1] -\n                                    phi._value[1:Nx+1, 1:Ny+1])\n    psiX_m[-1, :] = 0.0  # right boundary\n    # y direction\n    rY_m = dphiY_p[:, 1:]/_fsign(dphiY_p[:, 0:-1])\n    psiY_m[:, 0:Ny] = 0.5*FL(rY_m)*(phi._value[1:Nx+1, 0:Ny] -\n                                    phi._value[1:Nx+1, 1:Ny+1])\n    psiY_m[:, -1] = 0.0  # top boundary will be handled in the main matrix\n    # find the velocity direction for the upwind scheme\n    ux_min, ux_max, uy_min, uy_max = _upwind_min_max(u, u_upwind)\n    ue_min, ue_max = ux_min[1:Nx+1, :], ux_max[1:Nx+1, :]\n    uw_min, uw_max = ux_min[0:Nx, :], ux_max[0:Nx, :]\n    vn_min, vn_max = uy_min[:, 1:Ny+1], uy_max[:, 1:Ny+1]\n    vs_min, vs_max = uy_min[:, 0:Ny], uy_max[:, 0:Ny]\n\n    # calculate the TVD correction term", 'convectionTvdRHS2D')
# ---- C14
mut('c14-rsub', 'C14', 'cell.py', "                                other - self.value,\n", "                                self.value - other,\n", 'CellVariable.__rsub__')
mut('c14-ge-scalar', 'C14', 'cell.py', "                                self.value>=other,\n", "                                self.value>other,\n", 'CellVariable.__ge__')
mut('c14-funceval4', 'C14', 'cell.py', "                              args[2].value, \n                              args[3].value),\n                            deepcopy(args[0].BCs))\n    elif len(args)==5:", "                              args[2].value, \n                              args[2].value),\n                            deepcopy(args[0].BCs))\n    elif len(args)==5:", 'funceval/n=4')
mut('c14-mul-bcs-alias', 'C14', 'cell.py', "            return CellVariable(self.domain, \n                                self.value * other,\n                                deepcopy(self.BCs))\n\n    def __rmul__", "            return CellVariable(self.domain, \n                                self.value * other,\n                                self.BCs)\n\n    def __rmul__", 'CellVariable.__mul__')
mut('c14-face-y', 'C14', 'face.py', "            return FaceVariable(self.domain, self._xvalue-other._xvalue,\n                                self._yvalue-other._yvalue,", "            return FaceVariable(self.domain, self._xvalue-other._xvalue,\n                                self._yvalue+other._yvalue,", 'FaceVariable.__sub__')
mut('c14-copy-alias', 'C14', 'cell.py', "        return CellVariable(self.domain, np.copy(self._value),\n                            deepcopy(self.BCs))", "        return CellVariable(self.domain, self._value,\n                            deepcopy(self.BCs))", 'CellVariable.copy')
# ---- C15
mut('c15-upwindminmax', 'C15', 'advection.py', "    if issubclass(type(u.domain), Grid1D):\n        ux_min = np.copy(u._xvalue)\n", "    if issubclass(type(u.domain), Grid1D):\n        ux_min = u._xvalue\n", 'convectionUpwindTerm')
mut('c15-upwindmean', 'C15', 'averaging.py', "    phi_tmp = np.copy(phi._value)\n", "    phi_tmp = phi._value\n", 'upwindMean')
# ---- C16
mut('c16-theta-cyl2d', 'C16', 'face.py', "    @property\n    def thetavalue(self):\n        if (type(self.domain) is PolarGrid2D)\\\n         or (type(self.domain) is CylindricalGrid3D)\\\n", "    @property\n    def thetavalue(self):\n        if (type(self.domain) is PolarGrid2D)\\\n         or (type(self.domain) is CylindricalGrid2D)\\\n         or (type(self.domain) is CylindricalGrid3D)\\\n", 'thetavalue.getter')
mut('c16-shape-guard', 'C16', 'cell.py', "        elif np.all(np.array(cell_value.shape)==mesh_struct.dims+2):\n", "        elif True:\n", 'CellVariable.__init__/shape')
mut('c16-radial-polar', 'C16', 'boundary.py', "    elif BC.right.periodic or BC.left.periodic:  # periodic boundary condition\n        raise ValueError(\"Radial periodic boundary conditions are not physically meaningful.\")\n        #\n        # Keep the following code for future reference, once a physically relevant\n        # case has been identified for radial periodic BCs...\n        #\n        # # Right boundary\n        # i = Nx+1\n        # j = int_range(1, Ny)", "    elif BC.right.periodic and BC.left.periodic:  # periodic boundary condition\n        raise ValueError(\"Radial periodic boundary conditions are not physically meaningful.\")\n        #\n        # Keep the following code for future reference, once a physically relevant\n        # case has been identified for radial periodic BCs...\n        #\n        # # Right boundary\n        # i = Nx+1\n        # j = int_range(1, Ny)", 'boundaryConditionsTermPolar2D/radial-periodic')
mut('c16-arity-1d', 'C16', 'mesh.py', "        else:\n            raise TypeError('Incorrect number of arguments for creation of 1D mesh structure.')", "        else:\n            raise ValueError('Incorrect number of arguments for creation of 1D mesh structure.')", 'Grid1D.__init__/arity')
# ---- twins (behaviour preserving)
mut('twin-third', 'C01', 'diffusion.py', "    De = rf[1:Nx+1]**2*Dx[1:Nx+1]/(1/3*(rf[1:Nx+1]**3-rf[0:Nx]**3)*dx[1:Nx+1])", "    De = rf[1:Nx+1]**2*Dx[1:Nx+1]/((rf[1:Nx+1]**3-rf[0:Nx]**3)/3*dx[1:Nx+1])", None)
mut('twin-third-c05', 'C05', 'diffusion.py', "    De = rf[1:Nx+1]**2*Dx[1:Nx+1]/(1/3*(rf[1:Nx+1]**3-rf[0:Nx]**3)*dx[1:Nx+1])", "    De = rf[1:Nx+1]**2*Dx[1:Nx+1]/((rf[1:Nx+1]**3-rf[0:Nx]**3)/3*dx[1:Nx+1])", None)
mut('twin-slice', 'C06', 'diffusion.py', "    De = Dx[1:Nx+1]/(dx[1:Nx+1]*DX[1:Nx+1])\n    Dw = Dx[0:Nx]/(dx[0:Nx]*DX[1:Nx+1])", "    De = Dx[1:]/(DX[1:Nx+1]*dx[1:])\n    Dw = Dx[:Nx]/(dx[:Nx]*DX[1:-1])", None)
mut('twin-blocks-order', 'C01', 'diffusion.py', "    iix = np.tile(G[1:Nx+1], 3)  # main diagonal x\n    jjx = np.hstack([G[0:Nx], G[1:Nx+1], G[2:Nx+2]])\n    sx = np.hstack([AW, APx, AE])\n\n    # build the sparse matrix\n    kx = 3*Nx\n    return csr_array((sx[0:kx], (iix[0:kx], jjx[0:kx])), shape=(Nx+2, Nx+2))\n\n\ndef diffusionTermCylindrical1D", "    iix = np.tile(G[1:Nx+1], 3)  # main diagonal x\n    jjx = np.hstack([G[2:Nx+2], G[1:Nx+1], G[0:Nx]])\n    sx = np.hstack([AE, APx, AW])\n\n    # build the sparse matrix\n    kx = 3*Nx\n    return csr_array((sx[0:kx], (iix[0:kx], jjx[0:kx])), shape=(Nx+2, Nx+2))\n\n\ndef diffusionTermCylindrical1D", None)
mut('twin-rename-c03', 'C03', 'boundary.py', "    dx_1 = BC.domain.cellsize._x[0]\n    dx_end = BC.domain.cellsize._x[-1]\n\n    # boundary condition (a d\\\\phi/dx + b \\\\phi = c, a column vector of [d a])", "    dx_1 = BC.domain.cellsize._x[1]\n    dx_end = BC.domain.cellsize._x[-2]\n\n    # boundary condition (a d\\\\phi/dx + b \\\\phi = c, a column vector of [d a])", None)
mut('twin-c14-commute', 'C14', 'cell.py', "    def __radd__(self, other):\n        if type(other) is CellVariable:\n            return CellVariable(self.domain, \n                                self.value + other.value,", "    def __radd__(self, other):\n        if type(other) is CellVariable:\n            return CellVariable(self.domain, \n                                other.value + self.value,", None)
mut('twin-c13-smart', 'C13', 'utilities.py', "np.minimum(4.0,np.minimum(0.25+0.75*r, 2.0*r))", "np.minimum(np.minimum(2.0*r, (1.0+3.0*r)/4.0), 4.0)", None)
mut('twin-c16-msg', 'C16', 'mesh.py', "raise TypeError('Incorrect number of arguments for creation of 1D mesh structure.')", "raise TypeError('Grid1D takes (Nx, Lx) or (face_locations)')", None)
mut('twin-c12-alpha', 'C12', 'source.py', "    return linearSourceTerm(a/dt), constantSourceTerm(a*phi/dt)", "    return linearSourceTerm(a*(1/dt)), constantSourceTerm(phi*a/dt)", None)


# ---- added with the second round of seeded changes
mut('twin-c10-diff-pad', 'C10', 'mesh.py', "        return np.hstack([facelocation[1]-facelocation[0],\n                          facelocation[1:]-facelocation[0:-1],\n                          facelocation[-1]-facelocation[-2]])", "        d = np.diff(facelocation)\n        return np.pad(d, 1, mode='edge')", None)
mut('twin-c10-diff-concat', 'C10', 'mesh.py', "        return np.hstack([facelocation[1]-facelocation[0],\n                          facelocation[1:]-facelocation[0:-1],\n                          facelocation[-1]-facelocation[-2]])", "        d = np.diff(facelocation)\n        return np.concatenate(([d[0]], d, [d[-1]]))", None)
mut('twin-c06-none-newaxis', 'C06', 'diffusion.py', "np.newaxis", "None", None, occ='all')
mut('twin-c05-flatten', 'C05', 'diffusion.py', ".ravel()", ".flatten()", None, occ='all')
mut('twin-c01-concatenate', 'C01', 'diffusion.py', "np.hstack([", "np.concatenate([", None, occ='all')
mut('twin-c12-try-genexp', 'C12', 'pdesolver.py', "    x = phi_old._value + dt*RHS.reshape(phi_old._value.shape)\n", "    try:\n        shp = tuple(n for n in phi_old._value.shape)\n    except AttributeError:\n        raise TypeError('phi_old must be a CellVariable')\n    x = phi_old._value + dt*RHS.reshape(shp)\n", None)
mut('twin-c14-radd-copy0', 'C14', 'cell.py', "    def __radd__(self, other):\n        if type(other) is CellVariable:", "    def __radd__(self, other):\n        if np.isscalar(other) and other == 0:\n            return self.copy()\n        if type(other) is CellVariable:", None)
mut('c14-radd-self0', 'C14', 'cell.py', "    def __radd__(self, other):\n        if type(other) is CellVariable:", "    def __radd__(self, other):\n        if np.isscalar(other) and other == 0:\n            return self\n        if type(other) is CellVariable:", 'CellVariable.__radd__')
mut('c09-explicit-noguard', 'C09', 'pdesolver.py', "    if phi_old.BCs.modified or phi_old.value.modified:\n        phi_old.apply_BCs()\n    \n    x = phi_old._value", "    x = phi_old._value", 'solveExplicitPDE/BCs.modified=True')
mut('c05-tvd-drop-args', 'C05', 'advection.py', "        return convectionTvdRHSCylindrical1D(u, phi, FL, *args)", "        return convectionTvdRHSCylindrical1D(u, phi, FL)", 'convectionTvdRHSCylindrical1D')
mut('c01-explicit-noapply', 'C01', 'pdesolver.py', "    phi._value = TrackedArray(x)\n    phi.apply_BCs()\n    return phi", "    phi._value = TrackedArray(x)\n    return phi", 'solveExplicitPDE')


# ---- twins for the rules added with the fourth / fifth round
mut('twin-c09-update-copy', 'C09', 'cell.py', "        np.copyto(self._value, new_cell._value)\n        self._value.modified = True\n", "        self._value = TrackedArray(np.copy(new_cell._value))\n        self._value.modified = True\n", None)
mut('twin-c03-plotprofile-copy', 'C03', 'cell.py', "            phi0 = np.copy(self._value)", "            phi0 = self._value.copy()", None, occ='all')
mut('twin-c12-explicit-temp', 'C12', 'pdesolver.py', "    x = phi_old._value + dt*RHS.reshape(phi_old._value.shape)\n", "    x = dt*RHS.reshape(phi_old._value.shape)\n    x += phi_old._value\n", None)
mut('twin-c04-rhs-size', 'C04', 'source.py', "        RHS = np.zeros((Nx+2)*(Ny+2)*(Nz+2))", "        RHS = np.zeros(G.size)", None)
mut('c04-rhs-int', 'C04', 'source.py', "        RHS = np.zeros((Nx+2)*(Ny+2)*(Nz+2))", "        RHS = np.zeros(G.size, dtype=G.dtype)", 'constantSourceTerm')
mut('c16-disp-drop-args', 'C16', 'advection.py', "        return convectionUpwindTermCylindrical2D(u, *args)", "        return convectionUpwindTermCylindrical2D(u)", 'convectionUpwindTerm/argument-forwarding')
mut('c15-grad-applybcs', 'C15', 'calculus.py', "    # calculates the gradient of a variable\n    # the output is a face variable\n    if issubclass(type(phi.domain), Grid1D):\n        dx = 0.5*(phi.domain.cellsize._x[0:-1]+phi.domain.cellsize._x[1:])\n        return FaceVariable(phi.domain,\n                     (phi._value[1:]-phi._value[0:-1])/dx,", "    # calculates the gradient of a variable\n    # the output is a face variable\n    if phi.BCs.modified or phi.value.modified:\n        phi.apply_BCs()\n    if issubclass(type(phi.domain), Grid1D):\n        dx = 0.5*(phi.domain.cellsize._x[0:-1]+phi.domain.cellsize._x[1:])\n        return FaceVariable(phi.domain,\n                     (phi._value[1:]-phi._value[0:-1])/dx,", 'gradientTerm/dirty-argument')
mut('c09-periodic-off-noflag', 'C09', 'boundary.py', "    def periodic(self, val):\n        self.modified = True\n        self._periodic = bool(val)\n", "    def periodic(self, val):\n        self._periodic = bool(val)\n        if self._periodic:\n            self.modified = True\n", 'periodic.setter[switch off]')


# ---- twins for the rules added with the sixth / seventh round
mut('twin-c09-setter-ellipsis', 'C09', 'boundary.py', "        self._a[:] = val\n", "        self._a[...] = val\n", None)
mut('twin-c09-setter-copyto', 'C09', 'boundary.py', "        self._c[:] = val\n", "        np.copyto(self._c, val)\n        self._c.modified = True\n", None)
mut('twin-c13-fsign-where', 'C13', 'advection.py', "    return (np.abs(phi_in) >= eps1)*phi_in+eps1*(phi_in == 0.0)+eps1*(np.abs(phi_in) < eps1)*np.sign(phi_in)",
    "    small = np.abs(phi_in) < eps1\n    return np.where(small, np.where(phi_in == 0.0, eps1, eps1*np.sign(phi_in)), phi_in)", None)
mut('twin-c17-fsign-where', 'C17', 'advection.py', "    return (np.abs(phi_in) >= eps1)*phi_in+eps1*(phi_in == 0.0)+eps1*(np.abs(phi_in) < eps1)*np.sign(phi_in)",
    "    small = np.abs(phi_in) < eps1\n    return np.where(small, np.where(phi_in == 0.0, eps1, eps1*np.sign(phi_in)), phi_in)", None)
M.append(dict(id='c15-memo-cache', prop='C15', patch=os.path.join(VERIF, 'selftest', 'mutants', 'c15-memo-cache.diff'), expect='module.diffusion'))
M.append(dict(id='c06-size-threshold', prop='C06', patch=os.path.join(VERIF, 'selftest', 'mutants', 'c06-size-threshold.diff'), expect='diffusionTerm1D'))
M.append(dict(id='c09-tracked-setter-or', prop='C09', patch=os.path.join(VERIF, 'selftest', 'mutants', 'c09-tracked-setter-or.diff'), expect='TrackedArray.modified.setter'))


def seeded_entries():
    """every independently seeded change whose target check reports it is replayed as a mutant of the target check"""
    sd = os.path.join(VERIF, 'seeded')
    for d in sorted(os.listdir(sd)):
        mp = os.path.join(sd, d, 'meta.json')
        if not os.path.exists(mp):
            continue
        meta = json.load(open(mp))
        tgt = meta['breaks_property']
        hits = meta.get('caught_by', {}).get(tgt)
        if not hits:
            continue
        cons = re.search(r'construct=(\S+)', hits[0]).group(1)
        M.append(dict(id='seed-' + d, prop=tgt, patch=os.path.join(sd, d, 'patch.diff'), expect=cons.split('[')[0][:60]))


seeded_entries()


def twin_entries():
    """behaviour-preserving rewrites written by independent sub-agents (selftest/twins/, equivalence checked numerically by their
    authors against the unchanged package): every listed check must stay silent; for the two documented analysis limits the exit
    code may be 2 (analysis error) but never 1"""
    ip = os.path.join(VERIF, 'selftest', 'twins', 'index.json')
    if not os.path.exists(ip):
        return
    for t in json.load(open(ip)):
        for prop in t['props']:
            M.append(dict(id=f"{t['id']}@{prop}", prop=prop, patch=os.path.join(VERIF, t['patch']), expect=None,
                          limit=(t.get('expect') == 'silent-or-analysis-error')))


twin_entries()


# the unchanged tree through every thorough tier: must be silent (a model fault that only the thorough tier's wider class set
# reaches - C09.P10 on multi-D grids, DESIGN 9.5 - would otherwise go unnoticed until the thorough command is used)
for _i in range(1, 18):
    M.append(dict(id=f'clean-thorough-C{_i:02d}', prop=f'C{_i:02d}', expect=None, identity=True, tier='thorough'))


def run_one(m, keep=False):
    try:
        return _run_one(m, keep)
    except subprocess.TimeoutExpired:
        return m, 'TIMEOUT', 'the check did not finish within the self-test time limit'


def _run_one(m, keep=False):
    tmp = tempfile.mkdtemp(prefix='pv_selftest_')
    try:
        dst = os.path.join(tmp, 'src', 'pyfvtool')
        shutil.copytree(REPO_SRC, dst)
        os.makedirs(os.path.join(tmp, 'docs'), exist_ok=True)
        shutil.copytree('/repo/docs/user_guide', os.path.join(tmp, 'docs', 'user_guide'))
        if m.get('identity'):
            pass                                            # the unchanged tree (thorough tiers: they are not run by anything else here)
        elif 'patch' in m:
            r = subprocess.run(['git', 'apply', m['patch']], cwd=tmp, capture_output=True, text=True)
            if r.returncode:
                return m, 'SETUP', f"patch does not apply: {r.stderr[:200]}"
        else:
            path = os.path.join(dst, m['file'])
            s = open(path).read()
            n = s.count(m['old'])
            if n == 0:
                return m, 'SETUP', f"pattern not found in {m['file']}"
            if m['occ'] == 'all':
                s2 = s.replace(m['old'], m['new'])
            else:
                parts = s.split(m['old'])
                k = m['occ']
                s2 = m['old'].join(parts[:k + 1]) + m['new'] + m['old'].join(parts[k + 1:])
            open(path, 'w').write(s2)
            try:
                import ast
                ast.parse(s2)
            except SyntaxError as e:
                return m, 'SETUP', f"mutant does not parse: {e}"
        env = dict(os.environ, PV_REPO=tmp, PV_EVIDENCE_DIR=os.path.join(tmp, 'evidence'), PV_JOBS=os.environ.get('PV_SELFTEST_JOBS', '1'))
        p = subprocess.run([os.path.join(VERIF, 'check'), m['prop'], '--tier', m.get('tier', 'quick')], cwd=VERIF, env=env, capture_output=True, text=True, timeout=5400)
        out = p.stdout + p.stderr
        vio = [l for l in out.splitlines() if l.startswith('  rule=')]
        if m['expect'] is None:
            ok = p.returncode == 0 or (m.get('limit') and p.returncode == 2)
            return m, 'OK' if ok else 'FALSE-ALARM', f"exit {p.returncode}; " + '; '.join(v.strip()[:150] for v in vio[:3]) + (out[-300:] if p.returncode == 2 else '')
        hit = [v for v in vio if m['expect'] in v]
        if p.returncode == 1 and hit:
            return m, 'OK', hit[0].strip()[:160]
        return m, 'MISSED', f"exit {p.returncode}; violations: " + ('; '.join(v.strip()[:120] for v in vio[:4]) or out[-400:].replace('\n', ' | '))
    finally:
        shutil.rmtree(tmp, ignore_errors=True)


def main():
    ap = argparse.ArgumentParser()
    ap.add_argument('--only', default=None)
    ap.add_argument('--jobs', type=int, default=12)
    ap.add_argument('--start', type=int, default=0, help='skip the first N entries (resume)')
    a = ap.parse_args()
    ms = [m for m in M if not a.only or a.only in m['id'] or a.only == m['prop']]
    ms = ms[a.start:]
    res = []
    with ThreadPoolExecutor(a.jobs) as ex:
        for m, status, detail in ex.map(run_one, ms):
            print(f"{status:12s} {m['id']:26s} {m['prop']} {'twin' if m['expect'] is None else 'mutant'} :: {detail}", flush=True)
            res.append(dict(id=m['id'], prop=m['prop'], kind='twin' if m['expect'] is None else 'mutant', expect=m['expect'], status=status, detail=detail))
    bad = [r for r in res if r['status'] != 'OK']
    json.dump(res, open(os.path.join(VERIF, 'selftest', 'last_results.json'), 'w'), indent=1)
    print(f"{len(res) - len(bad)}/{len(res)} as expected")
    return 1 if bad else 0


if __name__ == '__main__':
    sys.exit(main())
