#!/bin/bash
# tools/collect_seed.sh <round-prefix e.g. S6> <Cnn> <srcdir e.g. /tmp/seed6_C10>
# copies an agent's deliverables into seeded/<prefix>-<Cnn>, confirms it (try_seed verify) and runs the quick checks on a scratch copy
set -u
P=$1; ID=$2; SRC=$3
D=/verif/seeded/$P-$ID
mkdir -p $D
cp $SRC/patch.diff $SRC/demo.py $D/ && cp $SRC/notes.md $D/ 2>/dev/null
cd /verif
/venv/bin/python tools/try_seed.py verify $D > $D/.verify.log 2>&1; echo "verify rc=$?" 
/venv/bin/python tools/try_patch.py $D/patch.diff --json $D/checks.json --workers 5 --jobs 3
