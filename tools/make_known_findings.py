#!/venv/bin/python
"""Regenerates /verif/known_findings.json (development-time helper; the checks only *read* the file)."""
import json, subprocess, os


def h(pat):
    out = subprocess.check_output(['git', '-C', '/repo', 'log', '--format=%h', '-F', '--grep', pat]).decode().split()
    if not out:
        raise SystemExit(f"no fix commit matches {pat!r}")
    return out[0]


f = []


def known(prop, rule, construct, what):
    f.append(dict(property=prop, rule=rule, construct=construct, status='known', what=what))


def fixed(prop, pat, what):
    f.append(dict(property=prop, rule='-', construct='-', status='fixed', commit=h(pat), what=what))


SPH = ("SphericalGrid3D operators are written for the mid-point cell measure r_p^2*dr*sin(theta_p)*dtheta*dphi while "
       "SphericalGrid3D._getCellVolumes (hence domainIntegral) uses 4/3*pi*(r2^3-r1^3)*dtheta/pi*dphi/(2pi); interior face "
       "fluxes cancel for the former measure only, so domainIntegral() drifts on SphericalGrid3D. Not repaired: "
       "tests/test_cell_volumes.py::test_spherical_grid_3d_slice_uneven pins the current cellvolume, and rewriting all "
       "SphericalGrid3D operators for exact volumes is not a minimal patch.")
for rule, cons in [('R1', 'advection.convectionTermSpherical3D/axis=x'), ('R1', 'advection.convectionTermSpherical3D/axis=y'),
                   ('R1', 'advection.convectionUpwindTermSpherical3D/axis=x'), ('R1', 'advection.convectionUpwindTermSpherical3D/axis=y'),
                   ('R1', 'diffusion.diffusionTermSpherical3D/axis=x'), ('R1', 'diffusion.diffusionTermSpherical3D/axis=y'),
                   ('R2', 'calculus.divergenceTermSpherical3D/axis=x'), ('R2', 'calculus.divergenceTermSpherical3D/axis=y'),
                   ('R3', 'advection.convectionTvdRHSSpherical3D/axis=x'), ('R3', 'advection.convectionTvdRHSSpherical3D/axis=y')]:
    known('C01', rule, cons + '[cancels-for-midpoint-volume-only]', SPH)

fixed('C01', 'use -wb for the back-face', 'R1 convectionTermCylindrical3D/Spherical3D axis=z: AB = wb.ravel() (missing minus)')
fixed('C01', 'west neighbour size', 'R1 convectionTermCylindrical2D/Polar2D axis=x: west face weighted with DXe')
fixed('C01', 'convectionTvdRHSSpherical1D divides', 'R3 convectionTvdRHSSpherical1D: 1/3**(...) instead of 1/3*(...)')
fixed('C01', 'convectionUpwindTermCylindrical1D boundary correction', 'R4 convectionUpwindTermCylindrical1D boundary correction without r_f/r_p')
fixed('C01', 'diffusionTermPolar2D ravels', 'R0 diffusionTermPolar2D: 2-D blocks hstacked then ravelled, entries interleaved')
fixed('C01', 'divergenceTermSpherical1D weights', 'R2 divergenceTermSpherical1D: rw*Fw and mid-point volume')
fixed('C01', 'convectionTvdRHSSpherical3D uses the spherical metric', 'R3 convectionTvdRHSSpherical3D: cylindrical metric factors pasted')

known('C10', 'G3', 'mesh.SphericalGrid3D._getCellVolumes[theta-weighted-by-dtheta/pi]',
      "SphericalGrid3D._getCellVolumes weights the polar extent by dtheta/pi instead of (cos th1 - cos th2)/2: per-cell volumes differ from the "
      "geometric shell-sector volume (the total over theta in [0,pi] is right, per cell and for partial theta ranges it is not). Not repaired: "
      "tests/test_cell_volumes.py::test_spherical_grid_3d_slice_uneven pins the current value (expected 0.8 of the ball for theta in [0.1pi,0.9pi]).")

exec(open(os.path.join(os.path.dirname(__file__), 'known_more.py')).read()) if os.path.exists(os.path.join(os.path.dirname(__file__), 'known_more.py')) else None
json.dump(dict(findings=f), open('/verif/known_findings.json', 'w'), indent=1)
print(len(f), 'entries')
