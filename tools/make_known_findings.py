#!/venv/bin/python
"""Regenerates /verif/known_findings.json (development-time helper; the checks only *read* the file)."""
import json, subprocess, os


def h(pat):
    out = subprocess.check_output(['git', '-C', '/repo', 'log', '--format=%h', '-F', '--grep', pat]).decode().split()
    if not out:
        raise SystemExit(f"no fix commit matches {pat!r}")
    return out[0]


f = []


def known(prop, rule, construct, what):
    f.append(dict(property=prop, rule=rule, construct=construct, status='known', what=what))


def fixed(prop, pat, what):
    f.append(dict(property=prop, rule='-', construct='-', status='fixed', commit=h(pat), what=what))


SPH = ("SphericalGrid3D operators are written for the mid-point cell measure r_p^2*dr*sin(theta_p)*dtheta*dphi while "
       "SphericalGrid3D._getCellVolumes (hence domainIntegral) uses 4/3*pi*(r2^3-r1^3)*dtheta/pi*dphi/(2pi); interior face "
       "fluxes cancel for the former measure only, so domainIntegral() drifts on SphericalGrid3D. Not repaired: "
       "tests/test_cell_volumes.py::test_spherical_grid_3d_slice_uneven pins the current cellvolume, and rewriting all "
       "SphericalGrid3D operators for exact volumes is not a minimal patch.")
for rule, cons in [('R1', 'advection.convectionTermSpherical3D/axis=x'), ('R1', 'advection.convectionTermSpherical3D/axis=y'),
                   ('R1', 'advection.convectionUpwindTermSpherical3D/axis=x'), ('R1', 'advection.convectionUpwindTermSpherical3D/axis=y'),
                   ('R1', 'diffusion.diffusionTermSpherical3D/axis=x'), ('R1', 'diffusion.diffusionTermSpherical3D/axis=y'),
                   ('R2', 'calculus.divergenceTermSpherical3D/axis=x'), ('R2', 'calculus.divergenceTermSpherical3D/axis=y'),
                   ('R3', 'advection.convectionTvdRHSSpherical3D/axis=x'), ('R3', 'advection.convectionTvdRHSSpherical3D/axis=y')]:
    known('C01', rule, cons + '[cancels-for-midpoint-volume-only]', SPH)

fixed('C01', 'use -wb for the back-face', 'R1 convectionTermCylindrical3D/Spherical3D axis=z: AB = wb.ravel() (missing minus)')
fixed('C01', 'west neighbour size', 'R1 convectionTermCylindrical2D/Polar2D axis=x: west face weighted with DXe')
fixed('C01', 'convectionTvdRHSSpherical1D divides', 'R3 convectionTvdRHSSpherical1D: 1/3**(...) instead of 1/3*(...)')
fixed('C01', 'convectionUpwindTermCylindrical1D boundary correction', 'R4 convectionUpwindTermCylindrical1D boundary correction without r_f/r_p')
fixed('C01', 'diffusionTermPolar2D ravels', 'R0 diffusionTermPolar2D: 2-D blocks hstacked then ravelled, entries interleaved')
fixed('C01', 'divergenceTermSpherical1D weights', 'R2 divergenceTermSpherical1D: rw*Fw and mid-point volume')
fixed('C01', 'convectionTvdRHSSpherical3D uses the spherical metric', 'R3 convectionTvdRHSSpherical3D: cylindrical metric factors pasted')

known('C10', 'G3', 'mesh.SphericalGrid3D._getCellVolumes[theta-weighted-by-dtheta/pi]',
      "SphericalGrid3D._getCellVolumes weights the polar extent by dtheta/pi instead of (cos th1 - cos th2)/2: per-cell volumes differ from the "
      "geometric shell-sector volume (the total over theta in [0,pi] is right, per cell and for partial theta ranges it is not). Not repaired: "
      "tests/test_cell_volumes.py::test_spherical_grid_3d_slice_uneven pins the current value (expected 0.8 of the ball for theta in [0.1pi,0.9pi]).")

PER = ("On a periodic axis whose first and last cells differ in size, the wrapped ghost values written by cellValuesWithBoundaries* "
       "(plain copies of the opposite end) do not satisfy the high-side periodic row of boundaryConditionsTerm*, which encodes slope "
       "continuity with the ratio dx_end/dx_1; the two agree exactly when the end cells are equal. After solvePDE the re-applied ghost "
       "layer therefore differs from the solved one on such grids. Not repaired: making the rows plain copies breaks flux conservation "
       "across the seam (C01), making the ghosts solve the rows changes six functions and loses the copy semantics; no minimal patch.")
for cons in ['boundaryConditionsTerm1D/face=right', 'boundaryConditionsTerm2D/face=right', 'boundaryConditionsTerm2D/face=top',
             'boundaryConditionsTerm3D/face=right', 'boundaryConditionsTerm3D/face=top', 'boundaryConditionsTerm3D/face=front',
             'boundaryConditionsTermCylindrical3D/face=top', 'boundaryConditionsTermCylindrical3D/face=front',
             'boundaryConditionsTermPolar2D/face=top', 'boundaryConditionsTermSpherical3D/face=top', 'boundaryConditionsTermSpherical3D/face=front']:
    known('C03', 'B3', 'boundary.' + cons + '[consistent-only-for-equal-end-cells]', PER)
    # the same finding seen by the checks that re-decide C03.B3 as a lemma (periodic closure of the flux balance / of the solved system)
    for dep in ('C01', 'C04'):
        known(dep, 'B3', 'boundary.' + cons + '[consistent-only-for-equal-end-cells]', PER + f" (lemma rule of C03 re-decided by {dep}.)")
fixed('C03', 'select the periodic or Robin ghost values of the back/front', 'B3/B4 cellValuesWithBoundaries3D/Cylindrical3D/Spherical3D: z-block guarded by the bottom/top periodic flags')
fixed('C05', 'forwards the optional u_upwind', 'E3u convectionUpwindTerm dispatcher drops u_upwind on 6 of 9 classes')
fixed('C11', 'harmonicMean returns 0', 'W8 harmonicMean 2D/3D: 0/0 = nan for two adjacent zeros')

fixed('C04', 'solvePDE builds the cached boundary term', 'S7 solvePDE on a solveExplicitPDE result: AttributeError _BCsTerm')
fixed('C16', 'documented TypeError for objects that are no equation term', 'L7 solvePDE unknown term: AttributeError instead of TypeError')
fixed('C16', 'FaceVariable.rvalue setter raises', 'L2 rvalue setter assigns _xvalue on Cartesian grids')
fixed('C16', 'thetavalue/phivalue raise AttributeError', 'L2 thetavalue/phivalue on SphericalGrid1D: NotImplementedError')
fixed('C16', 'wrong number of constructor arguments', 'L5 PolarGrid2D/CylindricalGrid3D/SphericalGrid3D arity: IndexError/UnboundLocalError')

SH = ("CellVariable.__init__ stores the caller's BoundaryConditions object itself and solveExplicitPDE hands phi_old.BCs to the variable it returns, so "
      "several variables can hold one BC object whose dirty flag any of them clears in apply_BCs: after an edit of the shared object the first "
      "solve consumes the flag and the next solve of another holder uses its stale cached boundary term / ghost values. Not repaired: copying the "
      "BCs in the constructor would silently change the documented usage (users keep editing the object they passed in), and a per-holder "
      "version counter is not a minimal patch.")
known('C09', 'P7', 'cell.CellVariable.__init__/shared-BC-object', SH)
known('C09', 'P7', 'pdesolver.solveExplicitPDE/shared-BC-object', SH)
fixed('C15', 'faceLocations (1D) returns a copy', 'Z4 faceLocations 1D stores the mesh face array itself in the returned FaceVariable')

fixed('C13', 'HCUS flux limiter guards', 'F2 HCUS: 0/0 = nan at r = -2 (no eps guard)')
fixed('C11', 'stores a ghost-including initial array as float', 'W5 upwindMean on a CellVariable built from an integer (N+2) array: boundary-face value truncated (np.copy keeps the int dtype)')
fixed('C03', 'stores a ghost-including initial array as float', 'B8 plotprofile 2D/3D on a CellVariable built from an integer (N+2) array: boundary entries truncated')

known('C17', 'H4', 'advection._fsign/absolute-threshold[eps1=1e-16]',
      "_fsign guards the TVD gradient ratios with the absolute threshold eps1=1e-16 that is compared with, and added to, a gradient of dimension "
      "K/L: its output is not homogeneous, so TVD results are unit-independent only while no |dphi| falls below 1e-16 in either unit system. "
      "Not repaired: a relative threshold needs a reference scale that the function does not receive (signature change in 9 callers).")

PER7 = ("Same root as C03.B3: on a periodic axis with unequal first/last cell sizes the periodic rows determine the ghost values as "
        "((r-1)*phi_1 + 2*phi_N)/(1+r) etc. with r = dx_end/dx_1, i.e. with a negative weight when the end cells differ, so the assembled matrix is "
        "not an M-matrix there and the range property can fail; with equal end cells all weights are non-negative.")
for cons in ['boundaryConditionsTerm1D/periodic/axis=x', 'boundaryConditionsTerm2D/periodic/axis=x', 'boundaryConditionsTerm2D/periodic/axis=y',
             'boundaryConditionsTerm3D/periodic/axis=x', 'boundaryConditionsTerm3D/periodic/axis=y', 'boundaryConditionsTerm3D/periodic/axis=z',
             'boundaryConditionsTermCylindrical3D/periodic/axis=y', 'boundaryConditionsTermCylindrical3D/periodic/axis=z',
             'boundaryConditionsTermPolar2D/periodic/axis=y', 'boundaryConditionsTermSpherical3D/periodic/axis=y', 'boundaryConditionsTermSpherical3D/periodic/axis=z']:
    known('C07', 'M3', 'boundary.' + cons + '[nonnegative-only-for-equal-end-cells]', PER7)

SEAM = ("convectionUpwindTerm* and convectionTvdRHS* apply their boundary-face treatment (half weight on the ghost value, zero limited flux "
        "on the first/last face) unconditionally, also when the axis is periodic: the rows of the first and last cell are then not the translates "
        "of the interior row, so a cyclically shifted initial field does not give the shifted solution and the upwind flux through the seam is not "
        "the donor-cell flux (mass drifts, C01). Not repaired: the builders do not receive the boundary conditions; making them periodic-aware "
        "changes the public signature of 18 functions.")
for cons in ['advection.convectionTvdRHS1D/seam=x[boundary-treatment-at-periodic-seam]', 'advection.convectionTvdRHS2D/seam=x[boundary-treatment-at-periodic-seam]', 'advection.convectionTvdRHS2D/seam=y[boundary-treatment-at-periodic-seam]', 'advection.convectionTvdRHS3D/seam=x[boundary-treatment-at-periodic-seam]', 'advection.convectionTvdRHS3D/seam=y[boundary-treatment-at-periodic-seam]', 'advection.convectionTvdRHS3D/seam=z[boundary-treatment-at-periodic-seam]', 'advection.convectionTvdRHSCylindrical3D/seam=y[boundary-treatment-at-periodic-seam]', 'advection.convectionTvdRHSCylindrical3D/seam=z[boundary-treatment-at-periodic-seam]', 'advection.convectionTvdRHSPolar2D/seam=y[boundary-treatment-at-periodic-seam]', 'advection.convectionUpwindTerm1D/seam=x[boundary-treatment-at-periodic-seam]', 'advection.convectionUpwindTerm2D/seam=x[boundary-treatment-at-periodic-seam]', 'advection.convectionUpwindTerm2D/seam=y[boundary-treatment-at-periodic-seam]', 'advection.convectionUpwindTerm3D/seam=x[boundary-treatment-at-periodic-seam]', 'advection.convectionUpwindTerm3D/seam=y[boundary-treatment-at-periodic-seam]', 'advection.convectionUpwindTerm3D/seam=z[boundary-treatment-at-periodic-seam]', 'advection.convectionUpwindTermCylindrical3D/seam=y[boundary-treatment-at-periodic-seam]', 'advection.convectionUpwindTermCylindrical3D/seam=z[boundary-treatment-at-periodic-seam]', 'advection.convectionUpwindTermPolar2D/seam=y[boundary-treatment-at-periodic-seam]']:
    known('C08', 'A4', cons, SEAM)

exec(open(os.path.join(os.path.dirname(__file__), 'known_more.py')).read()) if os.path.exists(os.path.join(os.path.dirname(__file__), 'known_more.py')) else None
json.dump(dict(findings=f), open('/verif/known_findings.json', 'w'), indent=1)
print(len(f), 'entries')
