#!/venv/bin/python
"""Regenerates /verif/MANIFEST.json from the table below (development-time helper)."""
import json, os
props = [json.loads(l) for l in open('/verif/properties.jsonl')]
ids = [p['id'] for p in props]
CHECKS = {}
NA = {}


def claim(pid, text, note, technique, design_ref):
    CHECKS[pid] = dict(property_id=pid, quick_cmd=f"./check {pid} --tier quick", thorough_cmd=f"./check {pid} --tier thorough",
                       evidence_file=f"/verif/evidence/{pid}.json", replay_cmd_template=f"./check {pid} --replay {{path}}",
                       engine='pv', level_claimed=dict(category='other', text=text, design_ref=design_ref), level_note=note,
                       technique=technique)


exec(open('/verif/tools/manifest_claims.py').read())
for pid in ids:
    if pid not in CHECKS and pid not in NA:
        NA[pid] = 'check not yet built (work in progress; see DESIGN.md)'
hooks = dict(guard='PYFVTOOL_VERIF', enable='none: pure source analysis, /repo carries no hooks',
             baseline_off_cmd='cd /repo && /venv/bin/python -m pytest -ra -q -p no:cacheprovider --timeout=900 --continue-on-collection-errors',
             source_commits=SOURCE_COMMITS, add_only=True)
m = dict(version=1, setup_cmd='true', hooks=hooks,
         engines=[dict(name='pv', path='/verif/pv', serves_properties=sorted(CHECKS),
                       kind_free_text='static analysis: ast-based abstract interpreter of the numpy subset (symbolic shapes and indices, exact rational stencils), plus AST/CFG rule checkers; never imports or executes pyfvtool')],
         checks=[CHECKS[p] for p in ids if p in CHECKS],
         notes='All checks parse /repo/src/pyfvtool with ast on every run; exit 2 = analysis error (construct outside the declared subset, vanished anchor, instance count below floor); exit 1 as soon as one unlisted violation is derived, even if other jobs could not be analysed. Index bound of the symbolic analyses: all cell counts N >= 8 per axis (generic and boundary-adjacent cells), plus concrete small grids with symbolic data (1..7 cells, mixed shapes; DESIGN.md 9.2/9.7); integer-dtype inputs are a separate pass in C03/C05/C10/C11.',
         not_applicable=[dict(property_id=p, reason=NA[p]) for p in ids if p in NA])
json.dump(m, open('/verif/MANIFEST.json', 'w'), indent=1)
print('claimed', sorted(CHECKS), 'n/a', sorted(NA))
