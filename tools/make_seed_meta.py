#!/venv/bin/python
"""Development-time helper: (re)writes seeded/<id>/meta.json from verify.json + checks.json (both produced by
tools/try_seed.py) and the hand-written table below.  Not a registered command."""
import json, os, re, sys

VERIF = os.path.dirname(os.path.dirname(os.path.abspath(__file__)))
SEEDED = os.path.join(VERIF, 'seeded')

# what the change needs in order to manifest (round 2; round-1 texts live in the existing meta.json files and are kept)
NEEDS = {
    'S2-C01': "two or more consecutive solveExplicitPDE steps with a right-hand side that reads ghost cells (gradient flux, TVD, face means); any grid class",
    'S2-C03': "PolarGrid2D with exactly one of the two theta faces flagged periodic (the other left Robin)",
    'S2-C04': "solvePDE term list in which a (matrix, vector) pair follows an earlier vector term (e.g. [constantSourceTerm, transientTerm])",
    'S2-C05': "SphericalGrid1D, convectionTVDupwindRHSTerm called with an explicit u_upwind whose sign differs from u on some face",
    'S2-C06': "SphericalGrid3D with non-uniform theta spacing and a central convection term with a theta velocity component",
    'S2-C08': "Grid3D, z axis periodic, first and last y cells of different size (non-uniform y spacing)",
    'S2-C09': "edit a boundary condition, call solveExplicitPDE(phi, ...) and afterwards solvePDE(phi, ...) on the same input variable",
    'S2-C10': "a mesh built from face positions whose first two (or last two) cells differ in size (non-uniform spacing next to a boundary)",
    'S2-C12': "two consecutive explicit steps (the ghost layer of the returned variable is stale); same mechanism as S2-C01 seen through C12",
    'S2-C14': "0 + CellVariable, i.e. the built-in sum() over CellVariables; the result is the operand itself",
    'S2-C15': "faceLocations() on a 1-D grid followed by an in-place edit of the returned FaceVariable",
    'S3-C02': "PolarGrid2D, convectionUpwindTerm, theta spacing whose first and last cells differ in size, negative u_theta on the theta_max faces",
    'S3-C07': "PolarGrid2D, upwind term, positive theta velocity through the theta=0 face, at least two radial cells",
    'S3-C11': "a second upwindMean on the same variable (or a boundary face with exactly zero velocity); float data with ghost != adjacent interior value",
    'S3-C13': "a field with a minute non-zero jump (e.g. 1e-200) next to an ordinary one, and a non-clipping limiter (CHARM, ospre, VanAlbada1)",
    'S3-C17': "SphericalGrid3D, non-periodic azimuth, Robin or inhomogeneous Neumann data on the back face",
    'S4-C01': "CylindricalGrid1D, TVD right-hand side, an interior face with negative radial velocity and an active limiter, face radius != 1",
    'S4-C02': "a 2-D grid class, a negative second-axis velocity component, and reuse of the same velocity FaceVariable after an upwind / TVD term was built from it",
    'S4-C03': "2-D or 3-D grid, float field, plotprofile() / visualizeCells() followed by a read of the ghost cells without apply_BCs() in between",
    'S4-C04': "a 3-D grid class and non-integer source (or transient) values: the right-hand side array inherits the integer dtype of the cell-number array",
    'S4-C05': "Grid1D built from an integer-dtype face-location array; the explicit divergence is truncated",
    'S4-C06': "Grid2D with exactly one cell along an axis and a positive velocity on the low face of that axis (repeated fancy index, last update wins)",
    'S4-C07': "a c-only property assignment (BCs.<face>.c = v) between two solvePDE calls; the dirty flag is not raised",
    'S4-C08': "Grid2D / CylindricalGrid2D with cell values given as an integer or bool array and a non-integer ghost value",
    'S4-C09': "a.update_value(b), then an in-place .value edit on either variable before the next rebinding, then a solve reading the other",
    'S4-C10': "CylindricalGrid3D with a single theta cell spanning exactly 2*pi",
    'S4-C12': "a multi-step explicit loop that passes the same RHS ndarray again (time-independent RHS built once)",
    'S4-C13': "the 'smart' limiter with gradient ratio above 7/3",
    'S4-C14': "unary minus on a CellVariable with inhomogeneous, non-periodic boundary conditions",
    'S4-C15': "upwindMean on a float variable whose ghost value differs from the adjacent interior value, then any later use of the ghost cells",
    'S4-C16': "an initial-value array with singleton axes, or any 2-D / 3-D grid with one cell along some but not all axes",
    'S4-C17': "same change as S4-C08, seen through unit rescaling (whole-number data are an int array in one unit system, floats in another)",
    'S5-C01': "Grid2D, x-periodic, non-uniform x with different first/last cell widths and a y end-cell ratio different from the x one, diffusion",
    'S5-C02': "CylindricalGrid2D, central convectionTerm, non-zero axial velocity, non-uniform z spacing",
    'S5-C03': "two variables sharing one BoundaryConditions object (or BCs changed with clean flags), then an explicit apply_BCs(): the cached boundary rows stay stale",
    'S5-C04': "Grid2D / CylindricalGrid2D with y (z) periodicity requested through a flag on exactly one face",
    'S5-C05': "Grid3D, negative z velocity on the front boundary face, last y and z cells of different width",
    'S5-C06': "Grid3D, upwind scheme, non-uniform z with different first/last z cells, negative w on the z-max faces",
    'S5-C07': "CylindricalGrid2D, non-uniform z with different first/last cells, inflow through the top boundary",
    'S5-C08': "Grid3D, z periodicity set through a single flag (back xor front), data varying along z",
    'S5-C09': "periodic switched on, a solve, periodic switched off on every periodic face of that direction, a solve - with no other edit in between",
    'S5-C10': "a 3-D grid built with the (N, L) constructor and L2/N2 != L3/N3",
    'S5-C11': "a 3-D grid class, non-uniform spacing along the second axis, geometricMean",
    'S5-C12': "two CellVariables on one BoundaryConditions object, BCs changed between steps, the other variable solved first, then .value assigned before solvePDE",
    'S5-C13': "the VanLeer limiter at exactly r == -1.0 (fields with exactly opposite successive differences)",
    'S5-C14': "FaceVariable >= FaceVariable on a 2-D or 3-D grid on faces where both operands are exactly equal",
    'S5-C15': "a BC edit or in-place value edit followed by gradientTerm before any apply_BCs / solvePDE",
    'S5-C16': "a radial grid class, the periodic flag set on left/right after the variable exists, and a repeated request after the first ValueError",
    'S5-C17': "SphericalGrid1D, convectionUpwindTerm called through the dispatcher with a u_upwind whose sign differs from u",
    'S6-C01': "CylindricalGrid3D with theta periodicity requested through a flag on exactly one of top/bottom, and a flux evaluated explicitly from ghost cells across the seam (divergenceTerm(u*linearMean(phi)) in solveExplicitPDE or as explicit RHS)",
    'S6-C02': "SphericalGrid3D, convectionUpwindTerm, negative theta velocity on the theta_max boundary faces, theta range not symmetric about pi/2",
    'S6-C03': "PolarGrid2D sector (theta not periodic) with Robin / inhomogeneous Neumann data on a theta face: the ghost dispatcher's isinstance test sends polar meshes to the Cartesian routine",
    'S6-C04': "a coefficient assigned through the setter with an ndarray of another shape but the same size (e.g. (Ny,) for the (1,Ny) left-face array) after the variable exists, then solvePDE with no other edit",
    'S6-C05': "SphericalGrid3D with exactly one phi cell, upwind term, positive azimuthal velocity on the back face (repeated fancy index, last update wins)",
    'S6-C06': "a 3-D grid, only the back (z-min) face edited after the last recompute, then solvePDE: the aggregate BCs.modified getter no longer looks at that face",
    'S6-C07': "SphericalGrid3D, non-uniform phi spacing with different first/last phi cells, negative phi velocity on the front face, upwind term",
    'S6-C08': "a 2-D/3-D grid built from face positions whose first two or last two cells differ (np.pad reflect for the ghost sizes), compared with the 1-D grid",
    'S6-C09': "a whole-coefficient augmented assignment (face.c += x, *=, ...) after construction / the last solve, no other flagged edit, then solvePDE",
    'S6-C10': "same change as S6-C08 (ghost cell sizes of 2-D/3-D grids built from face positions), seen through the geometry property",
    'S6-C11': "linearMean on a 1-D grid whose cell widths all lie within 1e-8 (absolute) of the first one although they differ relatively (nanometre-scale domains)",
    'S6-C12': "same change as S6-C06 (back face missing from the aggregate modified flag), seen through a transient step after a back-face edit",
    'S6-C13': "the 'smart' limiter with gradient ratio above 7/3 (cap 4 replaced by 2)",
    'S6-C14': "0 + CellVariable (e.g. sum() of a one-element list), then an in-place edit of the result or the operand",
    'S6-C15': "SphericalGrid3D wedge (front/back not periodic): the row builder divides the caller's front.a / back.a in place; a second call (or solve) sees the scaled coefficients",
    'S6-C16': "BoundaryFace constructed directly with a non-array that has a .shape (numpy scalar, sparse matrix, memoryview)",
    'S6-C17': "TVD term with some |dphi/dx| in (1e-16, 1e-8] in the working units (np.isclose default atol in _fsign)",
    'S7-C01': "Grid3D, central convectionTerm, non-zero z velocity on interior z faces, non-uniform z spacing (back-face weight uses the front neighbour size)",
    'S7-C02': "SphericalGrid1D, convectionUpwindTerm, negative radial velocity on the outer face (inflow) with Neumann / Robin data or no diffusion: the boundary correction reuses an already halved coefficient",
    'S7-C03': "SphericalGrid3D with phi periodicity requested through a flag on exactly one of back/front (De Morgan slip in the ghost function only)",
    'S7-C04': "solvePDE called with externalsolver=...: the final solve is routed through solveMatrixPDE without forwarding it",
    'S7-C05': "CylindricalGrid3D, TVD right-hand side with a non-zero limiter, negative axial velocity on z faces of the last theta row",
    'S7-C06': "SphericalGrid3D, central convectionTerm, non-uniform phi spacing, non-zero azimuthal velocity",
    'S7-C07': "hollow SphericalGrid1D (inner radius > 0), upwind term, positive velocity on the inner boundary face (statement order slip in the boundary correction)",
    'S7-C08': "Grid3D, TVD right-hand side, negative z velocity, data not locally linear along z (rZ_m copied from rZ_p)",
    'S7-C09': "periodic switched off on a periodic face pair after the variable exists, no other edit, then solvePDE (same kind of slip as S5-C09)",
    'S7-C10': "PolarGrid2D with a single theta cell spanning exactly 2*pi (np.mod of the sector angle)",
    'S7-C11': "a Grid3D-derived mesh with non-uniform spacing along the third axis, linearMean(...).zvalue, data varying along z",
    'S7-C12': "a list of equation terms containing a (matrix, vector) pair passed to solvePDE a second time (the list is extended in place)",
    'S7-C13': "the VanLeer limiter at exactly r == -1.0 (rewritten as 2r/(1+r) behind an (r>0) mask)",
    'S7-C14': "FaceVariable <= FaceVariable on a 3-D grid on z faces where both operands are exactly equal",
    'S7-C15': "solveMatrixPDE with an exactly all-zero float RHS: the returned variable's storage is the caller's RHS buffer",
    'S7-C16': "whole-attribute assignment fv.zvalue = arr on a SphericalGrid3D face variable (foreign label accepted by the setter only)",
    'S7-C17': "SphericalGrid3D from face arrays with theta_min > 0, upwind term, positive theta velocity on the theta_min boundary faces",
    'S8-C01': "a cylindrical / polar grid built from an integer-dtype face array: the cell centres are written into np.empty_like(faces) and truncated, the operators divide by them while cellvolume uses the exact faces",
    'S8-C02': "a boundary datum whose magnitude is <= 1e-8 (or a relative update < 1e-5): the setters skip assignments that np.allclose calls unchanged",
    'S8-C03': "same kind of slip as S8-C02 (np.allclose guard in the BoundaryFace setters), seen through the boundary-value property",
    'S8-C04': "every entry of the assembled right-hand side <= 1e-8 in magnitude and not all zero: solvePDE takes a `np.allclose(RHS, 0.0)` shortcut and never calls the solver",
    'S8-C05': "Grid1D with exactly one cell and positive velocity on the left boundary face (repeated fancy index in the diagonal correction)",
    'S8-C06': "SphericalGrid3D with a one-cell axis, upwind / TVD term, positive velocity on the lower face of that axis (repeated fancy index)",
    'S8-C07': "as S8-C06 (one-cell axis of SphericalGrid3D, positive velocity on its lower boundary face), seen through the maximum principle",
    'S8-C08': "Grid3D with exactly one cell along z and a back / front condition that is neither no-flux nor periodic: the z part of the diffusion matrix is skipped for Nz == 1",
    'S8-C09': "a second copy() of the same variable in one process after a boundary-condition edit (mutable default argument used as deepcopy memo)",
    'S8-C10': "a 1-D grid class built from exactly equispaced face positions whose first face is not 0 (the constructor delegates to the (N, L) form and drops the origin)",
    'S8-C11': "a non-uniform grid whose cell widths are all within 1e-8 (absolute) of the first one: cell_size_array treats the axis as uniform",
    'S8-C12': "alpha non-zero with |alpha| <= 1e-8 in every cell: transientTerm returns empty terms behind np.allclose(a.value, 0.0)",
    'S8-C13': "the CHARM limiter called with an integer-typed gradient-ratio array (np.piecewise allocates its output with the argument's dtype)",
    'S8-C14': "0 + CellVariable (the start value of sum()), then an in-place edit of the result or the operand",
    'S8-C15': "solvePDE with an all-zero boundary right-hand side and at least two RHS contributions: the first RHS term of the caller becomes the accumulator",
    'S8-C16': "a flat python list of numbers (or another array-like non-array) passed as an equation term: np.ndim classifies it by nesting depth instead of refusing it",
    'S8-C17': "TVD term with some |dphi/dx| in [1e-16, 1e-8] (np.isclose default atol in a rewritten _fsign)",
    'S9-C01': "two edits: copy() reuses the original's cached boundary term + solvePDE accumulates into it without a protective copy; b = a.copy() with clean flags, solvePDE(a) with an RHS term, then solvePDE(b)",
    'S9-C02': "two edits: cell_size_array returns arc lengths on angular axes + diffusionTermSpherical3D takes its sizes from it (metric applied twice); SphericalGrid3D, diffusion, angular dependence",
    'S9-C03': "two edits: left.c created with shape (Ny,) + the polar row builder writes -BC.left.c[0]; PolarGrid2D with a left-face c that varies along theta",
    'S9-C04': "two edits: solvePDE switches BCsTerm_precalc back off + copy() hands over _BCsTerm; explicit result, solvePDE, BC edit, apply_BCs / explicit step, copy(), solvePDE(copy)",
    'S9-C05': "two edits: convectionTvdRHSCylindrical2D takes its axial part from convectionTvdRHS2D(...)[2] + that function returns an alias of the total as its y part; CylindricalGrid2D, radial velocity, active limiter",
    'S9-C06': "same pair of ideas as S9-C01 (shared _BCsTerm through copy() + accumulation without a protective copy), seen through the uniform-field property",
    'S9-C07': "two edits: the upwind dispatcher tests the curvilinear classes with isinstance + SphericalGrid1D derives from CylindricalGrid1D; SphericalGrid1D shell with a divergence-free velocity gets the cylindrical matrix",
    'S9-C08': "two edits: MeshStructure.cellvolume cached on the mesh + diffusionTermPolar2D divides that array in place; PolarGrid2D, diffusion matrix assembled more than once on one mesh",
    'S9-C09': "same pair of ideas as S9-C01, seen through the no-stale-state property (branching a run with copy())",
    'S9-C10': "two edits: MeshStructure stores an `_equispaced` flag from np.allclose + Grid3D._getCellVolumes returns a constant array when it is set; non-uniform Grid3D whose size differences are below 1e-8",
    'S9-C11': "two edits: cell_size_array caches per mesh in a WeakKeyDictionary + MeshStructure gets __eq__/__hash__ that ignore the interior spacing; a second mesh of the same class, counts and end points",
    'S9-C12': "two edits: copy() keeps BCsTerm_precalc of the original + solvePDE tests hasattr(phi, '_BCsTerm'); copy of an explicit result, BC edit on the copy, solvePDE",
    'S9-C13': "two edits: _fsign gets a new `flush` parameter in front of eps1 + one caller passes its threshold positionally (it lands in `flush`); CylindricalGrid3D, theta differences at round-off level",
    'S9-C14': "two edits: BoundaryConditionsBase.__deepcopy__ (shallow copy + deep-copied faces) + a `_faces` tuple used by `modified`; the result of any operator / copy() tracks the operand's faces",
    'S9-C15': "two edits: cellvolume becomes a cached_property + convectionTvdRHSSpherical1D normalises it in place; repeated TVD assembly on SphericalGrid1D",
    'S9-C16': "two edits: the periodic setter stores the value as given + the Spherical3D row builder tests `is not True`; a radial face flagged periodic with a truthy non-bool (numpy bool, 1)",
    'S9-C17': "two edits: cell_size_array returns arc lengths on theta axes + convectionTvdRHSPolar2D takes its sizes from it (divides by r_p twice); PolarGrid2D, TVD term, azimuthal velocity",
    'S10-C01': "convectionTvdRHSSpherical3D: the back-face term of the phi-divergence uses the front-face window; SphericalGrid3D, TVD correction, negative azimuthal velocity",
    'S10-C03': "boundaryConditionsTerm dispatches with an isinstance chain that tests Grid3D before its subclass SphericalGrid3D (spherical meshes get Cartesian boundary rows); SphericalGrid3D with Neumann/Robin data on an angular face",
    'S10-C05': "convectionTermSpherical1D rewritten with pre-computed face weights that are swapped (own size instead of the neighbour's); SphericalGrid1D, central convection, non-uniform radial spacing",
    'S10-C08': "_facelocation_to_cellsize written with np.pad(.., mode='reflect') (ghost sizes repeat the second cell, not the adjacent one); 2-D/3-D classes from face positions with unequal end cells and a Dirichlet/Robin face",
    'S10-C10': "_mesh_3d_param routes equispaced face arrays through the (N, L) form with an origin, the third-axis centres get the second axis's origin; 3-D class, equispaced faces, y0 != z0",
    'S10-C11': "arithmeticMean refactored through a helper; the third component of the 3-D branch passes the widths in linearMean's order (neighbour's width); 3-D classes, non-uniform third axis",
    'S10-C14': "CellVariable.__mul__/__rmul__ fast path for scalars scales the stored array including ghost cells (ghosts are affine, not linear, in the interior); scalar operand != 1 and an inhomogeneous boundary condition",
    'S10-C16': "BoundaryFace.__init__ delegates its type check to TrackedArray(x, strict=True), which duck-types on `ndim`; numpy scalars (np.float64, arr[0], arr.sum()) as coefficients no longer raise TypeError",
    'S11-C02': "convectionTermCylindrical3D: the back-face part of the z diagonal uses the front neighbour's size (DZf for DZb); CylindricalGrid3D, central scheme, non-uniform z, axial velocity",
    'S11-C06': "convectionUpwindTermCylindrical1D boundary correction 'cleaned up' to reuse AW[0]; at the left boundary the halving runs before the diagonal update (a quarter instead of half); annulus with inner radius > 0, outward flow at the inner face",
    'S11-C07': "convectionUpwindTermCylindrical1D refactored with hoisted face weights; the right-boundary diagonal correction uses the west-face weight of the last cell; inward flow at the outer face",
    'S11-C09': "the a / b / c setters of BoundaryFace share a helper that returns early when `val is coeff` (face.c += x ends in exactly that call: the flag is never raised)",
    'S11-C12': "defaultNoFlux / fixedValue / fixedGradient / newtonCooling share a helper that skips the write when np.allclose(old, new): a slowly ramped boundary value is dropped, the cached boundary term stays",
    'S11-C13': "fluxLimiter: MUSCL / QUICK / smart share a kappa-scheme helper with the upper plateau 2 hard-coded (SMART's is 4); 'smart' with r > 7/3",
    'S11-C15': "arithmeticMean caches its face weights in a module-level dict keyed by class, dims and the end faces only; two meshes of equal extent and different interior spacing",
    'S11-C17': "the 1-D diffusion builders share _centerDistances with a uniform-mesh shortcut `if np.allclose(DX, DX[0])` (default atol=1e-8 on a length); non-uniform 1-D mesh with tiny cells in absolute numbers",
    'S2-C16': "assigning FaceVariable.yvalue on CylindricalGrid2D / PolarGrid2D / 3-D curvilinear grids (subclasses of Grid2D/Grid3D) where the label is not documented",
}

# result of the checks as committed *before* they were strengthened for the seed (observed with the previous /verif commit)
BEFORE = {
    'S2-C01': "C01 silent (caught by C03.B6 and C12.T2 only); C01.R8 added",
    'S2-C05': "C05 exit 0: no rule passed u_upwind to the TVD dispatcher; E4u/E5u added",
    'S2-C08': "C08 silent (caught by C03.B3 and C07.M3 only); C08.A1 now also relabels axes under periodic flags",
    'S2-C09': "C09 exit 0: the entry guard of solveExplicitPDE was not covered by any rule; P4e added",
    'S2-C10': "C10 exit 2 (np.diff / np.pad outside the modelled numpy subset); both modelled now, G1 reports the ghost sizes",
    'S2-C14': "C14 exit 2 (branch on a symbolic scalar); path splitting on symbolic scalar conditions added, plus concrete scalar operands 0 and 2",
    'S3-C02': "C02 exit 0 (only the generic cell was expanded; caught by C01.R4, C05.E3, C06.U3, C07.M2, C08.A2); C02.K3 boundary-face flux consistency added",
    'S3-C13': "C13 exit 0: F8 only demanded a total, non-zero _fsign; 'bounded away from zero' added to F8",
    'S4-C03': "no check reported it (B8 only compared the returned profile); B8 now also requires that plotprofile leaves the value array unwritten",
    'S4-C04': "exit 2 in C01/C04/C06/C12/C17 (the truncation wrapper lost the block structure of flat arrays; zeros_like(..).ravel() lost the all-zero base); fixed, and C04.S9 added (sources enter exactly)",
    'S4-C05': "no check reported it: scalars taken from integer face arrays lost their integer kind, so cellsize was modelled as float; face atoms are integer-valued in int-dtype worlds now",
    'S4-C06': "exit 2 (np.stack outside the subset) and `A[[0,-1],:] += v` was modelled as a store into a temporary; np.stack modelled, augmented assignment with an advanced key goes through __setitem__ (last index wins)",
    'S4-C08': "exit 2 in ten checks (np.pad of an n-D array); modelled (keeps the dtype), reported by the integer-dtype pass of C03 - and, since round 9, by C08 / C17 through the lemma group INTBC",
    'S4-C17': "as S4-C08",
    'S4-C09': "no check reported it; C09.P8u added (update_value / value setter leave no shared storage)",
    'S4-C12': "no check reported it: the symbolic RHS was not a storage object and reshape results were not views; reshape/ravel results now share storage with their source for effect tracking, C12.T3 / C01.R8 cover the RHS vector",
    'S4-C16': "exit 2 (np.squeeze outside the subset); modelled; C16.L4 gets singleton-axis shapes, C16.L9 the documented array forms on meshes with one cell along some axes",
    'S5-C08': "C08 silent (reported by C03.B3 only); C08.A1 relabels the axes under single-flag periodic configurations too",
    'S5-C17': "C17 silent (reported by C05.E3u/E5u and C16.L8f); C17.H3 now requires that with a separate direction field no sign test looks at the coefficient field",
    'S5-C03': "no check reported it (C09.P5 only entered apply_BCs with both flags raised); P5 now covers every flag valuation with a stale cache; since round 6 C03 / C12 re-decide the protocol lemmas",
    'S5-C12': "as S5-C03 (same change)",
    'S5-C09': "no check reported it (C09.P1 only switched periodic on); P1 now also switches it off",
    'S5-C15': "no check reported it (C15 ran every builder on clean variables only); Z1 dirty-argument pass added",
    'S5-C16': "no check reported it (the flags were only inspected after normal returns); C16.L3 repeated-refusal scenario added",
    'S6-C01': "no check reported it in the quick tier (single-flag periodic configurations of the theta axis were thorough-only); quick tier of C03 covers them for every axis now, C01.R5p added",
    'S6-C02': "C02 exit 2 (sine of a position anchored at the opposite end: 'argument of sin does not tend to a coordinate'); expanded about that point now, reported by K3 (C01.R4, C05.E3, C06.U3, C07.M2 reported it before)",
    'S6-C03': "exit 2 in C03/C07/C08/C16/C17 (isinstance with a tuple of classes in the dispatcher); type tests with tuples / `in` supported, dynamic dispatch fallback",
    'S6-C04': "exit 2 in C04/C09 (staticmethod called through self); static / class methods modelled; reported by C09.P1 (array of another shape) and, through the lemma group, by C04",
    'S6-C06': "reported by C04.S8 and C09.P1 only; C06 re-decides the protocol lemmas now",
    'S6-C09': "no check reported it (no augmented assignment in the edit alphabet, and the interpreter's `obj.attr += v` did not run the setter); statement-level edits in C09.P1",
    'S6-C11': "exit 2 in C05/C11 (np.allclose outside the subset); tolerance predicates fork the job, C11.WL reports the path `np.allclose(dx, dx[0]) is true`",
    'S6-C12': "as S6-C06 (same change): reported by C04.S8 / C09.P1 only; C12 re-decides the protocol lemmas now",
    'S6-C16': "no check reported it (L6 probed floats, a list and None only); array-like non-arrays (numpy scalars, sparse matrices, memoryviews) probed now",
    'S6-C17': "C17 exit 0: the rewritten _fsign tripped the H4 walk, but under the one construct of the listed known finding, which swallowed it (C13.F8 reported a false 'not analysable' violation); H4 reports one construct per threshold, F8 analyses the inlined body",
    'S7-C04': "exit 2 in every check that calls solvePDE with a recording external solver (the patched code reached spsolve, for which those worlds had no recording hook); the recordings accept whichever solver is called now, C04.S3 reports that the external solver was not the one used",
    'S7-C05': "no check reported it: C05.E5 (unit limiter: upwind - TVD == central) was evaluated at the generic cell only; it is now also evaluated per axis in the first / last rows along the other axes",
    'S7-C12': "C04.S2 misfired and C15 was silent: python list semantics were not modelled (`lst += [..]` rebinding instead of extending, no growth during iteration); modelled, and C04.S1 / C15.Z2 require the caller's term list to be unchanged",
    'S7-C15': "exit 2 (np.any over symbolic data); quantified predicates fork the job: effect / alias rules stay definite on the outcome that pins the data, value rules are undetermined there",
    'S8-C01': "C01 silent (reported by C10.G1 only): C01 had no integer-dtype pass; added",
    'S8-C04': "exit 2 everywhere (IndexError in the checker: no solver call was recorded on the path np.allclose(RHS, 0.0) is true); a missing solver call is reported (C04.S3, C09.P4)",
    'S8-C07': "C07 silent (reported by C05.E3, C06.U3): C07 used concrete one-cell grids in the thorough tier only; quick tier covers them for the 2-D / 3-D classes",
    'S8-C08': "C08 silent, C05 / C06 exit 2 (csr_array(shape) unmodelled): the empty-matrix form is modelled, C08.A1 also runs on concrete grids with equally many (one, two) cells along every axis",
    'S8-C09': "C09 silent (reported by nothing: default arguments were re-evaluated on every call and deepcopy ignored a caller's memo); default arguments are evaluated once, C14.O6 second-copy scenario, ALGEBRA lemma group in C09",
    'S8-C10': "exit 2 (np.all over symbolic data, then undetermined on the pinned path); np.all / np.any are decided over index classes when constant, C10.G1 also constructs every class from equispaced faces with a free origin",
    'S8-C12': "exit 2 (np.isinf unmodelled); modelled (symbolic data are finite), the np.allclose branch forks",
    'S8-C13': "reported at once - np.piecewise is outside the modelled subset of limiter formulas, which C13.F3 reports as a non-elementwise construct",
    'S8-C16': "C16 silent (L7 probed None / str / dict / objects / tuples only); np.ndim modelled, L7 probes python numbers, flat and nested lists, CellVariable objects, numpy scalars, 0-d and 3-d arrays",
    'S9-C01': "reported, but through C04.S1's old reading 'no write into the cached boundary system', which also fired on the harmless half (a false alarm, see DESIGN 9.5); now reported by C09.P10 (polluted cache reached by copy / solve / solve) and S1's post-state clause",
    'S9-C04': "C09 silent: the state needs five operations (explicit step, solve, edit, apply_BCs, copy) before the failing solve; C09.P10 explores edit histories breadth-first over abstract protocol states",
    'S9-C06': "as S9-C01",
    'S9-C08': "no check reported it; C15.Z6 (a repeated call with the same arguments returns the same values) added, and C08 compares the operators as assembled the second time on a mesh",
    'S9-C09': "as S9-C01",
    'S9-C10': "exit 2 (a branch on all(np.allclose(..) for ..): a compound of tolerance predicates); compound fork predicates are decided atom by atom",
    'S9-C11': "exit 2 (weakref.WeakKeyDictionary, user-defined __eq__/__hash__ of dictionary keys): a documented analysis limit - two meshes that compare equal are outside every world the checks build",
    'S9-C12': "C09 silent (three-operation history through copy() of an explicit result); C09.P10",
    'S9-C13': "exit 2 (C13 crashed on the bool default); C13.F8 analyses _fsign under the argument binding of every call site that passes more than the field",
    'S9-C14': "no check reported it (deep_copy ignored a user-defined __deepcopy__); __deepcopy__ / copy.copy / setattr modelled, reported by C14.O4",
    'S9-C15': "exit 2 (functools.cached_property unmodelled); modelled, reported by C15.Z6",
    'S9-C16': "C16 silent (L3 switched the flag on with True only); L3 also uses a truthy non-bool through the public setter",
    'S10-C10': "exit 2 in every check that builds a 3-D mesh (bool() of a tolerance predicate was not modelled); bool(np.allclose(..)) forks per job path like `if np.allclose(..)`, reported by C10.G1",
    'S10-C16': "exit 2 in C16 (the model of TrackedArray(..) accepted exactly one positional argument and never ran the class's own __new__); __new__ is interpreted now and only `np.asarray(x).view(cls)` is a modelled library step, reported by C16.L6",
    'S11-C17': "C17 silent (homogeneity holds on each path of the tolerance branch; which path is taken was not judged), C02 / C05 / C08 reported the value change; C17.H6 requires every tolerance predicate a branch is decided on to be scale-invariant",
    'S4-C02': "reported by C05 / C07 / C15 only until round 9; C02 re-decides the purity rules C15.Z1 / Z6 (lemma group PURITY) now",
    'S4-C07': "reported by C04.S8 / C09.P1 only until round 6; C07 re-decides the protocol lemmas now",
    'S5-C01': "reported by C03.B3 / C07.M3 / C08.A1 only until round 9; C01 re-decides C03.B3 (lemma group PERIODIC) now",
    'S5-C04': "reported by C03.B3 only until round 9; C04 re-decides C03.B3 (lemma group PERIODIC) now",
    'S-C04': "C04 silent in round 1 (caught by C09 only); C04.S8 added",
    'S-C15': "C05 exit 2 in round 1 (case-split budget); recursive case split",
}


def main():
    for d in sorted(os.listdir(SEEDED)):
        p = os.path.join(SEEDED, d)
        if not os.path.isdir(p) or not os.path.exists(os.path.join(p, 'checks.json')):
            continue
        old = {}
        if os.path.exists(os.path.join(p, 'meta.json')):
            old = json.load(open(os.path.join(p, 'meta.json')))
        ver = json.load(open(os.path.join(p, 'verify.json'))) if os.path.exists(os.path.join(p, 'verify.json')) else {}
        chk = json.load(open(os.path.join(p, 'checks.json')))
        files = re.findall(r'^\+\+\+ b/(.*)$', open(os.path.join(p, 'patch.diff')).read(), re.M)
        prop = 'C' + d.split('-C')[1]
        caught = {k: [re.sub(r' at src/.*$', '', v) for v in r['violations']] for k, r in sorted(chk.items()) if r['exit'] == 1}
        meta = {
            'id': d,
            'breaks_property': prop,
            'origin': 'independent sub-agent given only the property text and a scratch worktree' + (' (second round)' if d.startswith('S2') else ' (third round)' if d.startswith('S3') else ' (fourth round)' if d.startswith('S4') else ' (fifth round)' if d.startswith('S5') else ' (sixth round)' if d.startswith('S6') else ' (seventh round, with a focus area per property)' if d.startswith('S7') else ' (eighth round: triggers that are special values, sizes or types)' if d.startswith('S8') else ' (ninth round: two cooperating edits, each harmless alone)' if d.startswith('S9') else ' (tenth round: functions no earlier seed had touched)' if d.startswith('S10') else ' (eleventh round: functions no earlier seed had touched, remaining properties)' if d.startswith('S11') else ''),
            'files_changed': files,
            'needs_to_manifest': NEEDS.get(d) or old.get('needs_to_manifest', ''),
            'confirmed_by_me': {
                'how': 'tools/try_seed.py verify: fresh scratch worktree of /repo HEAD, patch applied, pinned test-suite run, demo run with and without the patch',
                'suite_with_change': ver.get('suite_with_change'),
                'demo_exit_with_change': ver.get('demo_with_change_exit'),
                'demo_exit_without_change': ver.get('demo_without_change_exit'),
                'confirmed': ver.get('confirmed'),
            },
            'checks_run': ('tools/try_patch.py: scratch copy of /repo/src + docs with patch.diff applied, PV_REPO pointed at it, every ./check CNN --tier quick' if (d[:2] in ('S6', 'S7', 'S8', 'S9') or d.startswith('S10') or d.startswith('S11')) else 'tools/try_seed.py checks: git -C /repo apply patch.diff; every ./check CNN --tier quick; git -C /repo checkout -- .'),
            'caught_by': caught,
            'analysis_errors': {k: r['errors'][:1] for k, r in sorted(chk.items()) if r['exit'] == 2},
            'silent': [k for k, r in sorted(chk.items()) if r['exit'] == 0],
        }
        if d in BEFORE:
            meta['before_strengthening'] = BEFORE[d]
        json.dump(meta, open(os.path.join(p, 'meta.json'), 'w'), indent=1)
        print(d, '->', ', '.join(caught) or 'NOT CAUGHT', '| target caught:', prop in caught)



def table():
    """markdown table for DESIGN.md"""
    rows = []
    for d in sorted(os.listdir(SEEDED), key=lambda s: (s.split('-')[0].replace('S', '') or '1', s)):
        mp = os.path.join(SEEDED, d, 'meta.json')
        if not os.path.exists(mp):
            continue
        m = json.load(open(mp))
        first = open(os.path.join(SEEDED, d, 'patch.diff')).read()
        fn = re.findall(r'^@@.*@@ (?:def |class )?([A-Za-z_0-9]+)', first, re.M)
        caught = []
        for k, v in m['caught_by'].items():
            rules = sorted({re.search(r'rule=(\S+)', x).group(1) for x in v if 'rule=' in x})
            caught.append(f"{k}.{'/'.join(rules)}")
        tgt = m['breaks_property']
        rows.append(f"| {d} | {tgt} | {', '.join(m['files_changed']).replace('src/pyfvtool/', '')}: {', '.join(dict.fromkeys(fn))[:60]} | "
                    f"{'**yes**' if tgt in m['caught_by'] else 'no'} | {', '.join(caught) or '-'} | {', '.join(m['analysis_errors']) or '-'} | {m.get('before_strengthening', '')} |")
    print("| seed | targets | site | caught by target check | all checks reporting a VIOLATION (rules) | exit 2 | before strengthening |")
    print("|---|---|---|---|---|---|---|")
    print('\n'.join(rows))


if len(sys.argv) > 1 and sys.argv[1] == 'table':
    table()
    sys.exit(0)


if __name__ == '__main__':
    main()
