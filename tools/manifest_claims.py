import subprocess
SOURCE_COMMITS = subprocess.check_output(['git', '-C', '/repo', 'log', '--format=%H', '--grep', '^fix:']).decode().split()
claim('C01',
      "Static: the stencil of every flux-form builder (45 implementations, all 9 grid classes) is extracted from the syntax tree by an abstract "
      "interpreter with symbolic cell counts, face positions and coefficient fields; for every face class the volume-weighted coefficients of the "
      "two adjacent rows are proved to cancel as an exact rational identity, with the volume taken from the class's own _getCellVolumes. Boundary "
      "faces, locality, source terms and domainIntegral are checked the same way. Decides the structural clause (exact-arithmetic flux "
      "cancellation for all N, spacings, coefficients, signs); rounding and solver accuracy are not decided.",
      "Trusted: CPython ast; the fail-closed model of the numpy subset (DESIGN.md app. A); exact Fraction polynomial algebra; telescoping-sum theorem.",
      "abstract interpretation of the AST into symbolic stencils + exact polynomial identity checking", "DESIGN.md 5 C01")

claim('C03',
      "Static: boundary.py (6 ghost-value and 6 boundary-row implementations) is interpreted symbolically for all 9 classes and every admissible "
      "per-axis periodic configuration; the ghost formula is proved to satisfy the assembled boundary row, the row to equal the documented Robin "
      "relation including the 1/r and 1/(r sin theta) metric factors, periodic wraps to hit the opposite end, (a,b,c) scale invariance, plotprofile "
      "face averages and ghost-row coverage - all as exact identities for symbolic sizes, spacings, coefficient arrays and fields. Plus syntactic "
      "guard/body agreement (B4) and the recompute-after-solve path rule (B6).",
      "Trusted: numpy-subset model incl. advanced-index scatter and q-positioned triplet assembly; exact algebra. Rounding not decided.",
      "abstract interpretation of the AST (symbolic ghost formulas and boundary rows) + exact identity checking; AST guard rule", "DESIGN.md 5 C03")
claim('C05',
      "Static: for all 9 classes the stencil row of diffusionTerm/convectionTerm/convectionUpwindTerm (with and without a separate upwind field), "
      "applied to a symbolic field including ghost values, is proved identical to the value produced by the interpreted chain "
      "divergenceTerm(coef*gradientTerm|linearMean|upwindMean(phi)) at the generic cell and at cells adjacent to every boundary, for every sign "
      "pattern of the face velocities (finite case split); TVD RHS vanishes for FL=0 and upwind-TVD(FL=1)=central on uniform grids.",
      "Trusted: numpy-subset model; exact algebra with indicator case splits. Rounding not decided.",
      "abstract interpretation of the AST into stencils + exact polynomial identity checking", "DESIGN.md 5 C05")
claim('C06',
      "Static: row sums of every extracted stencil (27 matrix implementations) are proved to be 0 (diffusion, per axis block) or equal to the "
      "extracted divergenceTerm(u) (central, upwind, all sign patterns); TVD RHS vanishes identically for constant phi; source terms are diagonal. "
      "Symbolic in sizes, spacings and coefficients, at generic and boundary-adjacent cells.",
      "Trusted: numpy-subset model; exact algebra. The steady-state corollaries rely on C04.", 
      "abstract interpretation of the AST into stencils + exact polynomial identity checking", "DESIGN.md 5 C06")
claim('C10',
      "Static: mesh.py is interpreted symbolically for both constructor forms of all 9 classes; sizes, centres, faces, ghost sizes, dims and the "
      "(N,L)/face-form agreement are proved as identities, each _getCellVolumes is compared per cell with the geometric volume formula of the "
      "property statement, positivity is decided in a sign domain, and the coordinate-label properties are partially evaluated for 9 classes x 6 "
      "labels x 3 property objects against the documented table.",
      "Trusted: numpy-subset model; exact algebra; preconditions (increasing faces, r>=0) to drop np.abs.",
      "abstract interpretation of mesh.py + exact identity checking; partial evaluation of label properties", "DESIGN.md 5 C10")
claim('C11',
      "Static: every mean function is interpreted for all 9 classes and all axes; each face value (generic and boundary faces) is proved to have "
      "two-cell support, weights summing to one and non-negative, the documented size weighting (linear: exact for linear fields; arithmetic/"
      "geometric/harmonic: identical weights), the donor/boundary-average/tie behaviour of upwindMean for every sign case, and no vanishing "
      "denominator on data containing zeros unless a zero guard selects 0 first.",
      "Trusted: numpy-subset model incl. the 1-D map-loops; exact algebra; weighted AM-GM-HM theorem for the ordering clause.",
      "abstract interpretation of the AST + exact identity checking + sign / zero-domain analysis", "DESIGN.md 5 C11")

claim('C04',
      "Static: solvePDE and solveMatrixPDE are interpreted symbolically with a recording solver in place of spsolve/externalsolver; the system that "
      "reaches the solver is proved, row by row (generic, boundary-adjacent and ghost cells, all 9 classes), to be the cached boundary system plus "
      "every matrix/vector/pair term exactly once (including negated and scaled terms); one solver call, identical for both solvers; C-order reshape "
      "into the variable passed in, ghost values re-imposed, same object returned; cached system and terms unwritten (effect events); every term "
      "builder emits interior rows only; an explicit-solver result is accepted.",
      "Trusted: numpy-subset model with the ndarray/sparse in-place kind distinction; the solver returns the solution of M x = RHS.",
      "abstract interpretation of pdesolver.py with a recording solver + row-wise exact comparison; effect (write) events", "DESIGN.md 5 C04")
claim('C12',
      "Static: transientTerm is interpreted through the real CellVariable constructor/operator chain for scalar and field alpha on all 9 classes and "
      "proved to give exactly the diagonal alpha_P/dt and right-hand side alpha_P*phi_old,P/dt (no other entries); solveExplicitPDE is interpreted "
      "symbolically and proved to return a new variable with old+dt*RHS inside and the boundary formula outside, leaving its input unwritten.",
      "Trusted: numpy-subset model; exact algebra. Limits dt->0/inf and O(dt^2) are not decided (corollaries of T1 with C04 / out of reach).",
      "abstract interpretation of source.py / pdesolver.py / cell.py + exact identity checking + effect events", "DESIGN.md 5 C12")
claim('C16',
      "Static: partial evaluation of the syntax tree with concrete Python-level configuration and symbolic data: label properties (9 classes x 6 labels "
      "x get/set, CellProp and FaceVariable), radial-periodic flag valuations, initial-value shape families, constructor arities 0..7, coefficient and "
      "term types; the outcome of each path is the exception class it raises or a normal return, compared with the documented table. Dispatcher "
      "coverage from the evaluated if/elif chains.",
      "Trusted: the interpreter's model of Python semantics for tuple indexing, unbound locals, attribute lookup, broadcasting errors.",
      "partial evaluation of the AST per configuration (exception outcome analysis)", "DESIGN.md 5 C16")

claim('C09',
      "Static: the dirty-flag/cache protocol is decided as an inductive invariant from rules over every writer, every reader and the only clearer: "
      "TrackedArray's methods are partially evaluated over all flag/base configurations; every BoundaryFace mutator and every writer of "
      "CellVariable._value is shown to raise a flag (interpretation + syntactic enumeration of all stores); solvePDE is interpreted under every "
      "valuation of the two flags with a deliberately stale cache and must hand the solver the rows of the current coefficients; apply_BCs must "
      "recompute ghosts and cache before clearing; only apply_BCs/__init__ may clear; the shared-BC-object scenario is interpreted symbolically.",
      "Trusted: numpy base semantics of views; the interpreter's TrackedArray model (justified by rule P3 on the real class).",
      "typestate / who-may-write analysis: partial evaluation of the protocol functions over all flag valuations + AST enumeration of writers", "DESIGN.md 5 C09")
claim('C14',
      "Static: all 18 operator methods of CellVariable and of FaceVariable, funceval/celleval/faceeval for arities 1..8 and copy() are interpreted "
      "symbolically for variable/scalar/array operands; values are compared with the operator the Python data model prescribes (reflected ones "
      "swapped), both branches must agree, no operand storage may be written (effect events), and the object graphs of result and operands must "
      "be disjoint with the BCs a deep copy of self's and ghosts consistent with them.",
      "Trusted: the interpreter's aliasing model (slices alias; arithmetic, np.copy, deepcopy are fresh).",
      "abstract interpretation of cell.py/face.py operator methods + object-graph alias analysis + effect events", "DESIGN.md 5 C14")
claim('C15',
      "Static effect analysis: 22 public builders x 9 classes (both upwind variants) are interpreted with all input storage read-only; every store into "
      "input storage is an event, reachability of input storage from returned objects decides aliasing; solvePDE/solveMatrixPDE/solveExplicitPDE "
      "likewise; module scan for randomness, clocks and mutable module state.",
      "Trusted: the interpreter's view/copy rules for numpy; csr_array copies its inputs.",
      "effect and alias analysis by abstract interpretation (write events on read-only storage, object-graph reachability) + AST scan", "DESIGN.md 5 C15")

claim('C13',
      "Static formula analysis: the body of each of the 16 limiter branches and of the fallback is converted from its syntax tree into an exact "
      "piecewise-rational function of r (Fraction coefficients; break points from |r|, min/max, comparisons; Sturm sequences) and compared on "
      "every piece and break point with the published closed form; totality (no denominator root inside a piece, finite break-point values), "
      "psi(1)=1, 0<=psi<=min(2r,4) on r>0, zero on r<=0 for the clip family, fallback==SUPERBEE, degree<=3 are decided on that representation; "
      "_fsign is analysed the same way (total, never 0) and a taint analysis shows every field-dependent divisor in the 9 TVD builders goes through it.",
      "Trusted: the reference table of published forms (citations in the checker); exact arithmetic. Overflow beyond 1e100 not decided.",
      "AST -> exact piecewise-rational normal form (Sturm root counting) compared with a reference table; taint analysis of divisors", "DESIGN.md 5 C13")

claim('C17',
      "Static units analysis over the extracted expressions: every stencil coefficient, right-hand side, ghost value, boundary row, mean, gradient, "
      "divergence and cell volume of all 9 classes (generic and boundary-adjacent cells) is assigned dimensions atom by atom (L/T/K/X roles from the "
      "property statement) and must be homogeneous, of the dimension its role demands, and of degree one in its coefficient field; limiter "
      "arguments dimensionless; _fsign is checked by a syntactic units walk for literal thresholds against dimensional quantities.",
      "Trusted: the role table (DESIGN.md app. B); homogeneity of all coefficients implies the scaling of the solved values through C04.",
      "units (dimension) abstract domain evaluated on statically extracted stencil expressions", "DESIGN.md 5 C17")

claim('C07',
      "Static: a sufficient M-matrix structure is decided on the extracted rows of every class: in a sign domain (D>=0, sizes>0, r>=0, sin>0, every "
      "sign case of each face velocity) all off-diagonal entries of -diffusion and +upwind (including boundary-corrected and ghost-coupling "
      "entries) are <= 0; row sums are the exact identities 0 / div u / alpha/dt / beta; ghost elimination by the extracted Dirichlet and no-flux "
      "ghost formulas is an affine combination with non-negative data weight, and the ghost weights solved from the periodic rows are examined "
      "for non-negativity. The M-matrix theorem bridges from structure to the range property for div u = 0.",
      "Trusted: weakly-chained-diagonally-dominant Z-matrix => inverse non-negative; sign domain by positive-increment substitution.",
      "sign-domain abstract interpretation of statically extracted stencil rows + exact row-sum identities", "DESIGN.md 5 C07")

claim('C08',
      "Static: operator-level symmetries are proved on the extracted stencils with atoms renamed/re-indexed: equivariance under every Cartesian "
      "axis transposition (all term families, gradient, means, ghost values, boundary rows), agreement of each embedding pair (Grid3D>2D>1D, "
      "Cylindrical3D>Cylindrical2D/Polar>Cylindrical1D) on data constant along the extra axis, mirror symmetry with reversed normal velocity "
      "(TVD: after verifying that every limiter factor is multiplied by the difference its _fsign guards), and translation across a periodic seam "
      "on uniform axes.",
      "Trusted: exact algebra; solution-level statements follow with C03/C04.",
      "symbolic stencil extraction + exact comparison under atom renaming (symmetry transformations)", "DESIGN.md 5 C08")

claim('C02',
      "Static, consistency clause only: the extracted stencil of every spatial operator (diffusion, central and upwind advection, divergence, "
      "gradient; 9 classes) is applied to smooth symbolic fields on smoothly graded spacing and expanded exactly as a Laurent series in the mesh "
      "size; the divergent coefficients must vanish and the limit must equal div(D grad phi), div(u phi), div F, grad phi in the orthogonal "
      "coordinates of the class (metric table as oracle), for every sign of the velocity. This decides the 'in particular' clause (metric factors, "
      "signs, coefficient placement agree with the continuous operator). The headline clause - error decreasing at the scheme's order under "
      "refinement - is a limit statement about runs and is NOT decided.",
      "Trusted: exact truncated-series arithmetic; metric table from vector calculus. Convergence rate, stability, solver accuracy not decided.",
      "symbolic stencil extraction + exact truncated Laurent-series (truncation-limit) analysis against a metric-table oracle", "DESIGN.md 5 C02")

# ---- rules added after the first complete pass (DESIGN.md 9.7): appended to the claim texts
_ADDED = {
    'C01': " Added: R5 no-flux closure, R8 explicit solver step (interior = old + dt*RHS, ghost layer re-imposed, arguments unwritten); every cell of concrete small grids (1..7 cells, mixed shapes) in the thorough tier.",
    'C02': " Added: K3 boundary-face flux consistency - the flux functional of every boundary face has the leading order of the interior-face functional expanded about the same point (independent expansion symbols for indices anchored at the opposite end of an axis).",
    'C03': " Added: every single-flag periodic configuration; an integer-dtype pass (nothing may be truncated); plotprofile must leave the value array unwritten.",
    'C04': " Added: S8 boundary data edited through the public setters reach the solver face by face; S9 source builders contribute exactly beta_P / gamma_P.",
    'C05': " Added: E4u/E5u TVD identities with an explicit upwind-direction field; concrete small grids and an integer-dtype pass.",
    'C06': " Added: concrete small grids (down to one cell per axis) in both tiers.",
    'C08': " Added: axis relabelling of ghost values and boundary rows also under periodic flags.",
    'C09': " Added: P4e solveExplicitPDE entered dirty keeps the invariant for its input; P5 for every flag valuation with a stale cache; P1 also switches periodic off; P8u update_value / value setter leave no shared storage.",
    'C10': " Added: concrete 1..7-cell grids and integer-dtype face arrays.",
    'C11': " Added: W9 arguments unwritten; an integer-dtype pass through the real CellVariable constructor.",
    'C12': " Added: T3 covers the RHS vector (views share storage with their source for effect tracking).",
    'C13': " Added: F8 _fsign is bounded away from zero (not merely non-zero).",
    'C14': " Added: scalar operands 0 and 2 next to the symbolic scalar; branches on a symbolic scalar are explored path by path with the path condition substituted.",
    'C15': " Added: every builder taking a CellVariable is also run on a variable whose change-tracking flags are raised (no rebinding, no recomputed ghosts, flags kept).",
    'C16': " Added: L8f every branch of a pure dispatcher forwards identical arguments; L9 documented array forms on meshes with one cell along some axes; L3 the radial-periodic refusal is repeatable; L4 singleton-axis shapes.",
}
for _pid, _txt in _ADDED.items():
    if _pid in CHECKS:
        CHECKS[_pid]['level_claimed']['text'] += _txt

# ---- round 6 (DESIGN.md 9.7 "Round-6 additions")
_LEM = (" Lemma rules re-decided here (the solve pipeline this property's corollary clauses rest on; DESIGN.md 9.7): the no-stale-state protocol "
        "(C09 P1..P5, P9, P8u: every edit statement of the alphabet raises a dirty flag, the solve entry points refresh cache and ghosts)")
_ADDED6 = {
    'C01': " R5p: the ghost layer wraps to the opposite side under every flag configuration that makes an axis periodic." + _LEM + " and the solve rules C04 S1..S9.",
    'C02': " A metric factor taken at a point other than the expansion point is expanded about that point (a definite mismatch instead of an analysis error)." + _LEM + ", C04 S1..S9 and the boundary rows C03 B1/B2/B6/B7/B9.",
    'C03': " Quick tier covers the single-flag periodic configurations of every axis." + _LEM + " and C04 S1..S9.",
    'C04': _LEM + ".",
    'C06': _LEM + ", C04 S1..S9 and the boundary rows C03 B1/B2/B6/B7/B9.",
    'C07': _LEM + " and C04 S1..S9.",
    'C08': _LEM + " and C04 S1..S9.",
    'C09': " P1 interprets the edit alphabet as user-level statements (plain / slice / augmented / element stores, array-valued right-hand sides in both accepted shapes, aliases, utility methods) so that python's getter / in-place operator / setter protocol applies.",
    'C12': _LEM + " and C04 S1..S9.",
    'C13': " F8 analyses _fsign after inlining local assignments (np.where / np.isclose / conditional expressions).",
    'C15': " Z5 counts a module-level container as hidden state only when it is mutated or escapes; module-level objects persist between interpreted calls.",
    'C16': " L6 probes array-like non-arrays (numpy scalars, sparse matrices, memoryviews) in every coefficient position; L8 falls back to interpretation per grid class for dispatchers that are not if/elif chains.",
    'C17': " H4 reports one construct per absolute threshold (literal, defaulted parameter, or the default atol of np.isclose / np.allclose), so a new threshold is not covered by the listed finding." + _LEM + " and C04 S1..S9.",
}
for _pid, _txt in _ADDED6.items():
    if _pid in CHECKS:
        CHECKS[_pid]['level_claimed']['text'] += _txt

# ---- rounds 7-9 (DESIGN.md 9.7)
_ADDED79 = {
    'C01': " Integer-dtype pass (nothing the operators or the volumes read may be truncated).",
    'C04': " S1 also requires the caller's term list unchanged and, as a post-state, that the cache the variable is left with is the boundary system of its conditions; a solve that reaches no solver is reported.",
    'C05': " E5 is evaluated per axis also in the first / last rows along the other axes.",
    'C07': " Concrete one-cell grids are part of the quick tier for the 2-D / 3-D classes.",
    'C08': " A1 also on concrete grids with equally many (one, two) cells along every axis; operators are compared as assembled the second time on a mesh.",
    'C09': " P10: edit histories of any length, explored breadth-first over abstract protocol states of a variable and a copy of it (edit, apply_BCs, explicit step, copy, solve on either), every solve must see the current boundary system and each term once; lemma rules C14 O3/O4/O6 (copies and arithmetic results share nothing, also on repeated calls).",
    'C10': " G1 also on equispaced face arrays with a free origin; np.all / np.any over symbolic arrays are decided over index classes when constant.",
    'C13': " F8 analyses _fsign under the argument binding of every call site that passes more than the field.",
    'C14': " O6 second-copy scenario (copy, edit, copy again); user-defined __deepcopy__ / __copy__ are interpreted.",
    'C15': " Z6: a repeated call of every builder with the same arguments returns the same values; Z2 requires the caller's term list unchanged.",
    'C16': " L7 probes python numbers, flat and nested lists, CellVariable objects, numpy scalars, 0-d / 3-d arrays and mis-typed pairs; L3 also with a truthy non-bool flag through the public setter.",
}
for _pid, _txt in _ADDED79.items():
    if _pid in CHECKS:
        CHECKS[_pid]['level_claimed']['text'] += _txt

# ---- rounds 10-11 (DESIGN.md 9.7)
_ADDED1011 = {
    'C09': " P10 runs on one class per dimension in the quick tier.",
    'C16': " TrackedArray.__new__ is interpreted (argument checks it performs are seen by L6).",
    'C17': " H6: every np.isclose / np.allclose a branch of the analysed code is decided on must be scale-invariant (operands dimensionless or atol == 0); a positive example is decided on every run.",
}
for _pid, _txt in _ADDED1011.items():
    if _pid in CHECKS:
        CHECKS[_pid]['level_claimed']['text'] += _txt
_FORKS = (" Branches of the analysed code on tolerance predicates (np.isclose / np.allclose), on quantified predicates over symbolic data (np.any / np.all) "
          "and on size comparisons the size range does not decide are explored path by path (the job is re-run once per decision sequence; value rules are "
          "undetermined, never violated, on an outcome that pins the data).")
for _pid in CHECKS:
    CHECKS[_pid]['level_note'] = CHECKS[_pid].get('level_note', '') + _FORKS
