import subprocess
SOURCE_COMMITS = subprocess.check_output(['git', '-C', '/repo', 'log', '--format=%H', '--grep', '^fix:']).decode().split()
claim('C01',
      "Static: the stencil of every flux-form builder (45 implementations, all 9 grid classes) is extracted from the syntax tree by an abstract "
      "interpreter with symbolic cell counts, face positions and coefficient fields; for every face class the volume-weighted coefficients of the "
      "two adjacent rows are proved to cancel as an exact rational identity, with the volume taken from the class's own _getCellVolumes. Boundary "
      "faces, locality, source terms and domainIntegral are checked the same way. Decides the structural clause (exact-arithmetic flux "
      "cancellation for all N, spacings, coefficients, signs); rounding and solver accuracy are not decided.",
      "Trusted: CPython ast; the fail-closed model of the numpy subset (DESIGN.md app. A); exact Fraction polynomial algebra; telescoping-sum theorem.",
      "abstract interpretation of the AST into symbolic stencils + exact polynomial identity checking", "DESIGN.md 5 C01")
