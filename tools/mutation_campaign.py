#!/venv/bin/python
"""Development-time mutation adequacy probe (not a registered command).

Generates one-site syntactic mutants of /repo/src/pyfvtool with a fixed set of operators typical for this code base
(index windows, east/west/north/south name slips, min/max, sign, dropped copies, comparison / boolean slips), runs every
quick check against each mutant in a scratch copy (PV_REPO) and records which checks report it.  The interesting output is
the list of mutants NO check reports: each one is either equivalent (dead code, plotting, a factor that cancels) or a blind
spot.  Nothing is written to /repo.

    tools/mutation_campaign.py --n 120 --seed 1 --workers 4 [--files advection.py,boundary.py]
"""
import os, re, sys, ast, json, random, shutil, argparse, subprocess, tempfile
from concurrent.futures import ThreadPoolExecutor

VERIF = os.path.dirname(os.path.dirname(os.path.abspath(__file__)))
REPO = os.environ.get('VP_RUN_REPO') or '/repo'   # vp run --with-repo: a snapshot, undisturbed by seed patches applied to /repo
SRC = os.path.join(REPO, 'src', 'pyfvtool')
PROPS = [f"C{i:02d}" for i in range(1, 18)]
FILES = ['advection.py', 'diffusion.py', 'calculus.py', 'averaging.py', 'boundary.py', 'source.py', 'cell.py', 'face.py', 'mesh.py',
         'pdesolver.py', 'utilities.py']

# (name, regex, replacement)   applied to ONE match on ONE line
OPS = [
    ('win-shift-down', r'\[1:(N[xyz])\+1\]', r'[0:\1]'), ('win-shift-up', r'\[0:(N[xyz])\]', r'[1:\1+1]'),
    ('win-tail', r'\[0:-1\]', '[1:]'), ('win-head', r'\[1:\]', '[0:-1]'), ('win-2', r'\[2:\]', '[1:-1]'), ('win-m2', r'\[0:-2\]', '[1:-1]'),
    ('idx-first-last', r'\[0\]', '[-1]'), ('idx-last-first', r'\[-1\]', '[0]'),
    ('e-w', r'\bDXe\b', 'DXw'), ('w-e', r'\bDXw\b', 'DXe'), ('n-s', r'\bDYn\b', 'DYs'), ('s-n', r'\bDYs\b', 'DYn'), ('f-b', r'\bDZf\b', 'DZb'),
    ('b-f', r'\bDZb\b', 'DZf'), ('p-e', r'\bDXp\b', 'DXe'), ('yp-n', r'\bDYp\b', 'DYn'), ('zp-f', r'\bDZp\b', 'DZf'),
    ('min-max', r'_min\b', '_max'), ('max-min', r'_max\b', '_min'), ('rf-rp', r'\brf\b', 'rp'), ('rp-rf', r'\brp\b', 'rf'),
    ('re-rw', r'\bre\b', 'rw'), ('rw-re', r'\brw\b', 're'),
    ('plus-minus', r'(?<=[\w\)\]]) ?\+ ?(?=[\w\(])', '-'), ('minus-plus', r'(?<=[\w\)\]])-(?=[\w\(])', '+'),
    ('two-one', r'\b2\.0\b', '1.0'), ('half-one', r'\b0\.5\b', '1.0'),
    ('drop-copy', r'np\.copy\(([^()]+)\)', r'\1'), ('gt-ge', r'(?<![<>=!])>(?![=>])', '>='), ('lt-le', r'(?<![<>=!])<(?![=<])', '<='),
    ('and-or', r'\band\b', 'or'), ('or-and', r'\bor\b', 'and'), ('drop-not', r'\bnot ', ''),
    ('x-y-val', r'_xvalue\b', '_yvalue'), ('y-x-val', r'_yvalue\b', '_xvalue'), ('left-right', r'\.left\.', '.right.'), ('top-bottom', r'\.top\.', '.bottom.'),
    ('a-b-coef', r'\.a\b(?!\w)', '.b'), ('sin-cos', r'np\.sin\(', 'np.cos('), ('sq-drop', r'\*\*2\b', ''),
]


def code_lines(path):
    """(lineno, text) of lines that are code (not in docstrings/comments), via the ast"""
    src = open(path).read()
    tree = ast.parse(src)
    doc = set()
    for n in ast.walk(tree):
        if isinstance(n, (ast.FunctionDef, ast.ClassDef, ast.Module)) and n.body and isinstance(n.body[0], ast.Expr) \
                and isinstance(n.body[0].value, ast.Constant) and isinstance(n.body[0].value.value, str):
            d = n.body[0]
            doc.update(range(d.lineno, d.end_lineno + 1))
    out = []
    for i, ln in enumerate(src.split('\n'), 1):
        t = ln.strip()
        if i in doc or not t or t.startswith('#') or t.startswith('import') or t.startswith('from ') or t.startswith('def ') or t.startswith('class ') \
                or t.startswith('raise') or t.startswith('warn') or 'print(' in t:
            continue
        out.append((i, ln))
    return src, out


def gen(n, seed, files):
    rnd = random.Random(seed)
    cands = []
    for f in files:
        src, lines = code_lines(os.path.join(SRC, f))
        for (i, ln) in lines:
            code = ln.split('#')[0]
            for name, rx, rep in OPS:
                for m in re.finditer(rx, code):
                    cands.append((f, i, name, m.start(), m.end(), rx, rep))
    rnd.shuffle(cands)
    # round-robin over the files, so that the big advection module does not take every slot
    by_file = {}
    for c in cands:
        by_file.setdefault(c[0], []).append(c)
    order = []
    while any(by_file.values()):
        for f in files:
            if by_file.get(f):
                order.append(by_file[f].pop())
    cands = order
    out, seen = [], set()
    per_op = {}
    for c in cands:
        key = (c[0], c[1], c[2])
        if key in seen or per_op.get(c[2], 0) >= max(3, n // 12):
            continue
        seen.add(key)
        per_op[c[2]] = per_op.get(c[2], 0) + 1
        out.append(c)
        if len(out) >= n:
            break
    return out


def apply(c, root):
    f, i, name, s, e, rx, rep = c
    p = os.path.join(root, 'src', 'pyfvtool', f)
    lines = open(p).read().split('\n')
    ln = lines[i - 1]
    new = ln[:s] + re.sub(rx, rep, ln[s:e], count=1) + ln[e:]
    if new == ln:
        return None
    lines[i - 1] = new
    txt = '\n'.join(lines)
    try:
        ast.parse(txt)
    except SyntaxError:
        return None
    open(p, 'w').write(txt)
    return ln.strip(), new.strip()


_UNITS = None


def props_for(c):
    """the checks whose evidence lists the function enclosing the mutated line (all checks if none does)"""
    global _UNITS
    if _UNITS is None:
        import glob
        _UNITS = {}
        for e in glob.glob(os.path.join(VERIF, 'evidence', 'C*.json')):
            d = json.load(open(e))
            for u in d.get('coverage', {}).get('units_analysed', []):
                _UNITS.setdefault(str(u).split('.')[-1], set()).add(d['property_id'])
    f, line = c[0], c[1]
    tree = ast.parse(open(os.path.join(SRC, f)).read())
    best = None
    for n in ast.walk(tree):
        if isinstance(n, (ast.FunctionDef, ast.ClassDef)) and n.lineno <= line <= n.end_lineno:
            if best is None or n.lineno >= best.lineno:
                best = n
    names = []
    for n in ast.walk(tree):
        if isinstance(n, (ast.FunctionDef, ast.ClassDef)) and n.lineno <= line <= n.end_lineno:
            names.append(n.name)
    sel = set()
    for nm in names:
        sel |= _UNITS.get(nm, set())
    return sorted(sel) or PROPS


def run(c, jobs):
    tmp = tempfile.mkdtemp(prefix='pv_mut_')
    try:
        shutil.copytree(SRC, os.path.join(tmp, 'src', 'pyfvtool'))
        shutil.copytree(os.path.join(REPO, 'docs', 'user_guide'), os.path.join(tmp, 'docs', 'user_guide'))
        ch = apply(c, tmp)
        if ch is None:
            return None
        env = dict(os.environ, PV_REPO=tmp, PV_EVIDENCE_DIR=os.path.join(tmp, 'ev'), PV_JOBS=str(jobs))
        res = {}
        for p in props_for(c):
            r = subprocess.run([os.path.join(VERIF, 'check'), p, '--tier', 'quick'], cwd=VERIF, env=env, capture_output=True, text=True, timeout=1800)
            res[p] = r.returncode
        return dict(file=c[0], line=c[1], op=c[2], before=ch[0], after=ch[1], result=res,
                    reported_by=[p for p, rc in res.items() if rc == 1], errors=[p for p, rc in res.items() if rc == 2])
    finally:
        shutil.rmtree(tmp, ignore_errors=True)


def main():
    ap = argparse.ArgumentParser()
    ap.add_argument('--n', type=int, default=60)
    ap.add_argument('--seed', type=int, default=1)
    ap.add_argument('--workers', type=int, default=12)
    ap.add_argument('--jobs', type=int, default=1)
    ap.add_argument('--files', default=','.join(FILES))
    ap.add_argument('--out', default=os.path.join(VERIF, 'selftest', 'mutation_campaign.json'))
    a = ap.parse_args()
    muts = gen(a.n, a.seed, a.files.split(','))
    out = []
    with ThreadPoolExecutor(a.workers) as ex:
        for r in ex.map(lambda c: run(c, a.jobs), muts):
            if r is None:
                continue
            tag = 'REPORTED' if r['reported_by'] else ('ERROR-ONLY' if r['errors'] else 'SILENT')
            print(f"{tag:10s} {r['file']}:{r['line']} {r['op']:14s} {','.join(r['reported_by']) or '-':30s} | {r['before'][:70]}  =>  {r['after'][:70]}", flush=True)
            out.append(r)
    prev = []
    if os.path.exists(a.out):
        prev = json.load(open(a.out))
    json.dump(prev + [dict(r, seed=a.seed) for r in out], open(a.out, 'w'), indent=1)
    n = len(out)
    print(f"{sum(1 for r in out if r['reported_by'])}/{n} reported, {sum(1 for r in out if not r['reported_by'] and r['errors'])} error-only, "
          f"{sum(1 for r in out if not r['reported_by'] and not r['errors'])} silent")


if __name__ == '__main__':
    main()
