#!/venv/bin/python
"""Development-time helper: run every quick check against each of several patches (scratch copies, see try_patch.py).

    tools/run_patchset.py --out results.json [--parallel 3] [--jobs 4] patch1.diff patch2.diff ...

Prints one line per (patch, check) that is not silent, and a summary; writes all results to --out.
Used for (a) behaviour-preserving rewrites, where every non-zero exit is a false alarm or an analysis gap, and (b) batches of
seeded breaking changes.
"""
import os, sys, json, argparse
from concurrent.futures import ThreadPoolExecutor
sys.path.insert(0, os.path.dirname(os.path.abspath(__file__)))
import try_patch


def main():
    ap = argparse.ArgumentParser()
    ap.add_argument('patches', nargs='+')
    ap.add_argument('--out', required=True)
    ap.add_argument('--parallel', type=int, default=3)
    ap.add_argument('--jobs', type=int, default=4)
    ap.add_argument('--workers', type=int, default=2)
    ap.add_argument('--props', default=','.join(try_patch.PROPS))
    ap.add_argument('--auto-props', action='store_true', help='only the checks whose evidence lists a function the patch touches')
    a = ap.parse_args()
    props = a.props.split(',')
    allres = {}
    units = {}
    if a.auto_props:
        import glob, re
        for e in glob.glob(os.path.join(try_patch.VERIF, 'evidence', 'C*.json')):
            d = json.load(open(e))
            for u in d.get('coverage', {}).get('units_analysed', []):
                units.setdefault(str(u).split('.')[-1], set()).add(d['property_id'])

    def props_for(p):
        if not a.auto_props:
            return props
        import re
        txt = open(p).read()
        names = set(re.findall(r'^@@.*@@.*?(?:def|class) ([A-Za-z_0-9]+)', txt, re.M)) | set(re.findall(r'^[-+ ]\s*def ([A-Za-z_0-9]+)', txt, re.M))
        sel = set()
        for n in names:
            sel |= units.get(n, set())
        return sorted(sel) or props

    def one(p):
        try:
            return p, try_patch.run(p, props_for(p), a.jobs, 'quick', a.workers)
        except Exception as e:
            return p, dict(error=f"{type(e).__name__}: {e}")
    with ThreadPoolExecutor(a.parallel) as ex:
        for p, res in ex.map(one, a.patches):
            allres[p] = res
            if 'error' in res:
                print(f"{p}: {res['error']}", flush=True)
                continue
            bad = {k: v for k, v in res.items() if v['exit'] != 0}
            print(f"{p}: " + ('all silent' if not bad else ', '.join(f"{k}={'VIOLATION' if v['exit'] == 1 else 'ANALYSIS-ERROR' if v['exit'] == 2 else v['exit']}" for k, v in bad.items())), flush=True)
            for k, v in bad.items():
                for ln in (v['violations'][:3] + v['errors'][:1]):
                    print(f"      {k}: {ln[:300]}", flush=True)
            json.dump(allres, open(a.out, 'w'), indent=1)
    json.dump(allres, open(a.out, 'w'), indent=1)


if __name__ == '__main__':
    main()
