#!/venv/bin/python
"""Development-time helper: run the quick checks that analyse the functions a seeded change touches (plus the check of the property
it was aimed at) against each given seed directory, on scratch copies (tools/try_patch.py), and write <dir>/checks.json.

    tools/seed_checks.py [--parallel 3] [--all-props] [--skip-done] seeded/S7-C01 seeded/S7-C02 ...
"""
import os, sys, json, re, glob, argparse
from concurrent.futures import ThreadPoolExecutor
sys.path.insert(0, os.path.dirname(os.path.abspath(__file__)))
import try_patch


def main():
    ap = argparse.ArgumentParser()
    ap.add_argument('dirs', nargs='+')
    ap.add_argument('--parallel', type=int, default=3)
    ap.add_argument('--jobs', type=int, default=4)
    ap.add_argument('--workers', type=int, default=2)
    ap.add_argument('--all-props', action='store_true')
    ap.add_argument('--skip-done', action='store_true')
    a = ap.parse_args()
    units = {}
    for e in glob.glob(os.path.join(try_patch.VERIF, 'evidence', 'C*.json')):
        d = json.load(open(e))
        for u in d.get('coverage', {}).get('units_analysed', []):
            units.setdefault(str(u).split('.')[-1], set()).add(d['property_id'])

    def one(d):
        d = d.rstrip('/')
        patch = os.path.join(d, 'patch.diff')
        out = os.path.join(d, 'checks.json')
        if a.skip_done and os.path.exists(out):
            return d, 'skipped'
        tgt = 'C' + os.path.basename(d).split('-C')[1]
        if a.all_props:
            props = list(try_patch.PROPS)
        else:
            txt = open(patch).read()
            names = set(re.findall(r'^@@.*@@.*?(?:def|class) ([A-Za-z_0-9]+)', txt, re.M)) | set(re.findall(r'^[-+ ]\s*def ([A-Za-z_0-9]+)', txt, re.M))
            sel = {tgt}
            for n in names:
                sel |= units.get(n, set())
            props = sorted(sel)
        res = try_patch.run(patch, props, a.jobs, 'quick', a.workers)
        json.dump(res, open(out, 'w'), indent=1)
        if 'error' in res:
            return d, res['error']
        return d, ', '.join(f"{k}={'V' if v['exit'] == 1 else 'E' if v['exit'] == 2 else '-'}" for k, v in res.items()) + f"   target {tgt}: {'CAUGHT' if res.get(tgt, {}).get('exit') == 1 else 'not caught'}"
    with ThreadPoolExecutor(a.parallel) as ex:
        for d, msg in ex.map(one, a.dirs):
            print(f"{d}: {msg}", flush=True)


if __name__ == '__main__':
    main()
