#!/venv/bin/python
"""Development-time helper (not a registered command): run every quick check against a patch in a scratch copy of /repo.

    tools/try_patch.py <patch.diff> [--props C01,C05] [--jobs 4] [--tier quick] [--json out.json]

Unlike tools/try_seed.py (which applies the patch to /repo itself and undoes it), this makes a scratch copy of
/repo/src/pyfvtool and /repo/docs/user_guide under /tmp, applies the patch there and points the checks at it with PV_REPO,
so several patches can be tried at once.  Nothing is written to /repo or to /verif/evidence.  The scratch copy is removed.
Prints, per check, silent / VIOLATION (+ rule lines) / ANALYSIS-ERROR (+ first message).
"""
import os, sys, json, shutil, argparse, subprocess, tempfile
from concurrent.futures import ThreadPoolExecutor

VERIF = os.path.dirname(os.path.dirname(os.path.abspath(__file__)))
PROPS = [f"C{i:02d}" for i in range(1, 18)]


def run(patch, props, jobs, tier, workers):
    tmp = tempfile.mkdtemp(prefix='pv_patch_')
    try:
        shutil.copytree('/repo/src/pyfvtool', os.path.join(tmp, 'src', 'pyfvtool'))
        shutil.copytree('/repo/docs/user_guide', os.path.join(tmp, 'docs', 'user_guide'))
        r = subprocess.run(['git', 'apply', '--unsafe-paths', '--directory', tmp, os.path.abspath(patch)], capture_output=True, text=True, cwd=tmp)
        if r.returncode:
            r = subprocess.run(['patch', '-p1', '-d', tmp, '-i', os.path.abspath(patch)], capture_output=True, text=True)
            if r.returncode:
                return dict(error='patch does not apply: ' + (r.stderr or r.stdout)[-300:])
        env = dict(os.environ, PV_REPO=tmp, PV_EVIDENCE_DIR=os.path.join(tmp, 'ev'), PV_JOBS=str(jobs))

        def one(p):
            r = subprocess.run([os.path.join(VERIF, 'check'), p, '--tier', tier], cwd=VERIF, env=env, capture_output=True, text=True, timeout=7200)
            out = r.stdout + r.stderr
            vio = [l.strip() for l in out.splitlines() if l.startswith('  rule=')]
            err = [l.strip()[:500] for l in out.splitlines() if l.startswith('ANALYSIS-ERROR')]
            return p, dict(exit=r.returncode, violations=vio[:12], errors=err[:2])
        with ThreadPoolExecutor(workers) as ex:
            return dict(ex.map(one, props))
    finally:
        shutil.rmtree(tmp, ignore_errors=True)


def main():
    ap = argparse.ArgumentParser()
    ap.add_argument('patch')
    ap.add_argument('--props', default=','.join(PROPS))
    ap.add_argument('--jobs', type=int, default=4)
    ap.add_argument('--workers', type=int, default=4)
    ap.add_argument('--tier', default='quick')
    ap.add_argument('--json', default=None)
    a = ap.parse_args()
    res = run(a.patch, a.props.split(','), a.jobs, a.tier, a.workers)
    if 'error' in res:
        print(res['error'])
        return 2
    for p, r in res.items():
        tag = {0: 'silent', 1: 'VIOLATION', 2: 'ANALYSIS-ERROR'}.get(r['exit'], str(r['exit']))
        print(f"{p}: {tag}" + ''.join('\n     ' + v[:200] for v in r['violations'][:4]) + ''.join('\n     ' + e[:400] for e in r['errors'][:1]))
    if a.json:
        json.dump(res, open(a.json, 'w'), indent=1)
    return 0


if __name__ == '__main__':
    sys.exit(main())
