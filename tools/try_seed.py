#!/venv/bin/python
"""Development-time helper for seeded changes (not a registered command).

  tools/try_seed.py verify <dir>     confirm a seeded change in a scratch worktree: applies <dir>/patch.diff, runs the pinned test
                                     suite and <dir>/demo.py with and without the change, removes the worktree
  tools/try_seed.py checks <dir>     git -C /repo apply <dir>/patch.diff ; run every quick check ; git -C /repo checkout -- .
                                     prints which checks report a violation and at which construct; writes <dir>/checks.json
"""
import os, sys, subprocess, json, tempfile, shutil, re
from concurrent.futures import ThreadPoolExecutor

VERIF = os.path.dirname(os.path.dirname(os.path.abspath(__file__)))
PROPS = [f"C{i:02d}" for i in range(1, 18)]


def sh(cmd, **kw):
    return subprocess.run(cmd, shell=True, capture_output=True, text=True, **kw)


def verify(d):
    d = os.path.abspath(d)
    wt = tempfile.mkdtemp(prefix='pv_seedverify_')
    os.rmdir(wt)
    r = sh(f"git -C /repo worktree add -q {wt} HEAD")
    if r.returncode:
        print(r.stderr)
        return 2
    out = {}
    try:
        env = dict(os.environ, PYTHONPATH=f"{wt}/src")
        r = sh(f"git -C {wt} apply {d}/patch.diff")
        out['apply'] = r.returncode
        if r.returncode:
            print('patch does not apply:', r.stderr)
            return 2
        r = sh(f"cd {wt} && /venv/bin/python -c 'import pyfvtool; print(pyfvtool.__file__)'", env=env)
        out['imported_from'] = r.stdout.strip()
        r = sh(f"cd {wt} && /venv/bin/python -m pytest -q -p no:cacheprovider --timeout=900 --continue-on-collection-errors 2>&1 | tail -3", env=env)
        out['suite_with_change'] = r.stdout.strip().splitlines()[-1] if r.stdout.strip() else r.stderr[-200:]
        r = sh(f"cd {wt} && /venv/bin/python {d}/demo.py", env=env, timeout=1800)
        out['demo_with_change_exit'] = r.returncode
        out['demo_with_change_tail'] = (r.stdout + r.stderr)[-600:]
        sh(f"git -C {wt} apply -R {d}/patch.diff")
        r = sh(f"cd {wt} && /venv/bin/python {d}/demo.py", env=env, timeout=1800)
        out['demo_without_change_exit'] = r.returncode
        out['demo_without_change_tail'] = (r.stdout + r.stderr)[-300:]
    finally:
        sh(f"git -C /repo worktree remove --force {wt}")
        shutil.rmtree(wt, ignore_errors=True)
    ok = ('48 passed' in out.get('suite_with_change', '')) and out['demo_with_change_exit'] != 0 and out['demo_without_change_exit'] == 0 \
        and wt in out.get('imported_from', '')
    out['confirmed'] = ok
    json.dump(out, open(os.path.join(d, 'verify.json'), 'w'), indent=1)
    print(json.dumps({k: v for k, v in out.items() if 'tail' not in k}, indent=1))
    return 0 if ok else 1


def run_check(p, evdir):
    env = dict(os.environ, PV_EVIDENCE_DIR=evdir, PV_JOBS='6')
    r = subprocess.run([os.path.join(VERIF, 'check'), p, '--tier', 'quick'], cwd=VERIF, env=env, capture_output=True, text=True, timeout=3000)
    out = r.stdout + r.stderr
    vio = [l.strip() for l in out.splitlines() if l.startswith('  rule=')]
    err = [l.strip()[:400] for l in out.splitlines() if l.startswith('ANALYSIS-ERROR')]
    return p, r.returncode, vio, err


def checks(d, props=None):
    d = os.path.abspath(d)
    st = sh("git -C /repo status --porcelain").stdout.strip()
    if st:
        print("/repo is not clean:", st)
        return 2
    r = sh(f"git -C /repo apply {d}/patch.diff")
    if r.returncode:
        print('patch does not apply to /repo:', r.stderr)
        return 2
    res = {}
    evdir = tempfile.mkdtemp(prefix='pv_seed_ev_')
    try:
        with ThreadPoolExecutor(6) as ex:
            for p, rc, vio, err in ex.map(lambda p: run_check(p, evdir), props or PROPS):
                res[p] = dict(exit=rc, violations=vio[:12], errors=err)
                tag = {0: 'silent', 1: 'VIOLATION', 2: 'ANALYSIS-ERROR'}.get(rc, str(rc))
                print(f"{p}: {tag}" + (''.join('\n     ' + v[:170] for v in vio[:4])) + (''.join('\n     ' + e[:300] for e in err[:1])))
    finally:
        sh("git -C /repo checkout -- .")
        shutil.rmtree(evdir, ignore_errors=True)
    st = sh("git -C /repo status --porcelain").stdout.strip()
    if st:
        print("WARNING: /repo not clean after undo:", st)
    path = os.path.join(d, 'checks.json')
    if props and os.path.exists(path):
        old = json.load(open(path))
        old.update(res)
        res = old
    json.dump(res, open(path, 'w'), indent=1)
    return 0


if __name__ == '__main__':
    if sys.argv[1] == 'verify':
        sys.exit(verify(sys.argv[2]))
    if sys.argv[1] == 'checks':
        sys.exit(checks(sys.argv[2], sys.argv[3:] or None))
